package main

import (
	"fmt"
	"go/constant"
	"go/token"
	"go/types"
	"math/big"
	"sort"
	"strings"

	"golang.org/x/tools/go/ssa"
)

// ---------------------------------------------------------------- C32

type tableSpec struct {
	name   string
	minLen int
	ref    func(b int) byte
	what   string
}

func isAlpha(b int) bool { return (b >= 'a' && b <= 'z') || (b >= 'A' && b <= 'Z') }
func isDigit(b int) bool { return b >= '0' && b <= '9' }
func isTchar(b int) bool {
	return isAlpha(b) || isDigit(b) || (b < 128 && b > 0 && strings.ContainsRune("!#$%&'*+-.^_`|~", rune(b)))
}
func isUnreserved(b int) bool {
	return isAlpha(b) || isDigit(b) || b == '-' || b == '_' || b == '.' || b == '~'
}
func b2u(x bool) byte {
	if x {
		return 1
	}
	return 0
}

var tableSpecs = []tableSpec{
	{"hex2intTable", 256, func(b int) byte {
		switch {
		case isDigit(b):
			return byte(b - '0')
		case b >= 'a' && b <= 'f':
			return byte(b - 'a' + 10)
		case b >= 'A' && b <= 'F':
			return byte(b - 'A' + 10)
		}
		return 16
	}, "hex digit value, 16 for non-hex"},
	{"toLowerTable", 256, func(b int) byte {
		if b >= 'A' && b <= 'Z' {
			return byte(b + 32)
		}
		return byte(b)
	}, "ASCII lower-casing"},
	{"toUpperTable", 256, func(b int) byte {
		if b >= 'a' && b <= 'z' {
			return byte(b - 32)
		}
		return byte(b)
	}, "ASCII upper-casing"},
	{"quotedArgShouldEscapeTable", 256, func(b int) byte { return b2u(!isUnreserved(b)) }, "escape everything outside RFC 3986 2.3 unreserved"},
	{"quotedPathShouldEscapeTable", 256, func(b int) byte {
		return b2u(!(isUnreserved(b) || (b < 128 && b > 0 && strings.ContainsRune("$&+,/:;=@", rune(b)))))
	}, "escape everything outside unreserved + $&+,/:;=@ (net/url encodePath)"},
	{"validHeaderFieldByteTable", 128, func(b int) byte { return b2u(isTchar(b)) }, "RFC 9110 tchar"},
	{"validHeaderValueByteTable", 256, func(b int) byte {
		return b2u((b >= 0x21 && b <= 0x7e) || b == 0x20 || b == 0x09 || b >= 0x80)
	}, "RFC 9110 field-vchar / obs-text / SP / HTAB"},
	{"validMethodValueByteTable", 256, func(b int) byte { return b2u(isTchar(b)) }, "RFC 9110 token (tchar)"},
}

// consumer predicates: function -> (table, reference predicate over the byte)
type consumerSpec struct {
	fn    string
	table string
	// ref gives, for byte b, the value the comparison "table[b] <op> k" must have
	ref  func(b int) bool
	what string
}

var consumerSpecs = []consumerSpec{
	{"validHeaderFieldByte", "validHeaderFieldByteTable", func(b int) bool { return isTchar(b) }, "true exactly for tchar"},
	{"validHeaderValueByte", "validHeaderValueByteTable", func(b int) bool {
		return (b >= 0x21 && b <= 0x7e) || b == 0x20 || b == 0x09 || b >= 0x80
	}, "true exactly for field-vchar/obs-text/SP/HTAB"},
	{"ishex", "hex2intTable", func(b int) bool {
		return isDigit(b) || (b >= 'a' && b <= 'f') || (b >= 'A' && b <= 'F')
	}, "true exactly for hex digits"},
	{"isValidMethod", "validMethodValueByteTable", func(b int) bool { return !isTchar(b) }, "rejects exactly non-tchar bytes"},
	{"AppendQuotedArg", "quotedArgShouldEscapeTable", func(b int) bool { return !isUnreserved(b) }, "escapes exactly the non-unreserved bytes"},
	{"appendQuotedPath", "quotedPathShouldEscapeTable", func(b int) bool {
		return !(isUnreserved(b) || (b < 128 && b > 0 && strings.ContainsRune("$&+,/:;=@", rune(b))))
	}, "escapes exactly the bytes net/url escapes in paths"},
}

func init() {
	register(&propDef{
		id:      "C32",
		explain: "Decides, by constant evaluation of /repo's source (no execution): (R1) each of the 8 byte-class table constants in bytesconv_table.go has the required length and every entry equals a reference predicate written independently in the checker from RFC 3986 2.3 / RFC 9110 (exhaustive over all byte values); (R2) every indexing of a table shorter than 256 entries is guarded by a bound test on the index; (R3) the comparison each consumer applies to the looked-up entry (e.g. table[c] == 1, < 16, != 0), folded over all 256 entries, equals the reference predicate of that consumer; (R4) the switch in AppendHTMLEscape maps exactly the five bytes of html.EscapeString to its five replacements; (R6) every return of AppendHTMLEscape lies behind the per-byte loop with that switch, or behind a shortcut whose test covers all five escaped bytes; (R5) header-name canonicalisation upper-cases the first byte and each byte after '-' and lower-cases the rest using those tables. NOT decided: equality of normalizeHeaderKey with net/textproto for every token as a whole-string function, and the escaping functions' output strings.",
		assume:  []string{"reference predicates in checker/rules_c32_c30.go are a faithful transcription of RFC 3986 2.3, RFC 9110 5.6.2/5.5 and html.EscapeString"},
		run:     runC32,
	})
	register(&propDef{
		id:      "C30",
		explain: "Decides structural/arithmetical necessary conditions of the integer codecs on the analysed GOARCH (amd64; thorough adds 386): (R1) the constants the overflow guard relies on satisfy, in exact big-integer arithmetic, maxIntDiv10 = floor(MaxInt/10), 10^maxSafeIntDigits-1 <= MaxInt, 10*maxIntDiv10+9 < 2^wordsize (so one sign test is decisive), 16^maxHexIntChars-1 <= MaxInt and the hex buffer holds every digit of MaxInt; (R2) in parseUintBuf every path that carries the new accumulator into the next iteration has passed either the 'few digits' test or both overflow tests with the overflow outcome excluded; (R3) in readHexInt every shift-accumulate step is only reached with the digit count below maxHexIntChars (each one on its own: a second accumulate loop is a second way into the value); (R4) ParseUint returns an error when parseUintBuf consumed less than the whole input; (R5) AppendUint and writeHexInt reject negative input before formatting; (R6) in the integer formatters a scratch buffer taken from a pool is given back only after its last use: once Put was called nothing that derives from the pooled value (the asserted buffer, a slice of it) is read or written, since the next Get may hand it to a concurrent or re-entrant formatter that overwrites the digits. (R7) in parseUintBuf the value returned without error is, followed back through its merges, built only from constants and accumulate steps 10*acc + (byte-'0') that are reached only when the byte failed the test 'byte-'0' > 9' - no byte contributes to the value without having passed the digit test. (R8) no return of ParseUint is reachable without the scan by parseUintBuf - nothing is accepted or rejected on the input's length alone. NOT decided: the accepted language of ParseUint as a whole, AppendUint/ParseUint being inverse, values of chunk sizes.",
		run:     runC30,
	})
}

func runC32(p *Prog, r *Report) {
	pkg := p.byPath[rootPkg].Types
	tables := map[string]string{}
	for _, ts := range tableSpecs {
		cv, ok := constOfObj(pkg, ts.name)
		if !ok || cv.Kind() != constant.String {
			r.Undecided("R1", "table "+ts.name, "constant not found in package fasthttp")
			continue
		}
		s := constant.StringVal(cv)
		tables[ts.name] = s
		okLen := len(s) == 256 || (len(s) >= ts.minLen && len(s) <= 256)
		r.Check("R1", "table "+ts.name+" length", okLen, "bytesconv_table.go", fmt.Sprintf("len=%d, need >=%d and <=256", len(s), ts.minLen))
		bad := []string{}
		for b := 0; b < len(s) && b < 256; b++ {
			if s[b] != ts.ref(b) {
				bad = append(bad, fmt.Sprintf("[%#x]=%d want %d", b, s[b], ts.ref(b)))
			}
		}
		r.Check("R1", "table "+ts.name+" entries", len(bad) == 0, "bytesconv_table.go",
			fmt.Sprintf("%d entries compared with: %s; mismatches: %s", len(s), ts.what, strings.Join(bad[:min(len(bad), 8)], ", ")))
	}
	r.Counts["R1 table entries compared"] = func() int {
		n := 0
		for _, s := range tables {
			n += len(s)
		}
		return n
	}()

	// R2 + R3: lookups
	nLookups := 0
	consumersSeen := map[string]int{}
	for _, fn := range p.funcsIn("") {
		for _, b := range fn.Blocks {
			for _, in := range b.Instrs {
				lk := asStrIndex(in)
				if lk == nil {
					continue
				}
				c, ok := lk.X.(*ssa.Const)
				if !ok || c.Value == nil || c.Value.Kind() != constant.String {
					continue
				}
				sv := constant.StringVal(c.Value)
				tname := ""
				for n, s := range tables {
					if s == sv && len(sv) >= 128 {
						tname = n
					}
				}
				if tname == "" {
					continue
				}
				nLookups++
				cons := fmt.Sprintf("lookup %s in %s", tname, fn.Name())
				// R2 bound guard. A byte index is always < 256.
				if len(sv) < 256 {
					ok := indexGuarded(lk, int64(len(sv)))
					r.Check("R2", cons+" bound guard", ok, p.Pos(lk.Pos()), fmt.Sprintf("table has %d entries; index must be tested < %d on every path to the lookup", len(sv), len(sv)))
				} else if !byteTyped(lk.Index) {
					r.Check("R2", cons+" byte-typed index", false, p.Pos(lk.Pos()), "index into a 256-entry table is not derived from a byte")
				} else {
					r.Check("R2", cons+" byte-typed index", true, p.Pos(lk.Pos()), "index derived from a byte: always < 256")
				}
				// R3 consumer predicate
				for _, cs := range consumerSpecs {
					if cs.fn != fn.Name() || cs.table != tname {
						continue
					}
					consumersSeen[cs.fn]++
					cmp := soleCompare(lk)
					if cmp == nil {
						r.Undecided("R3", "consumer "+cs.fn, "looked-up entry is not used by exactly one comparison with a constant")
						continue
					}
					k, _ := constInt(otherOperand(cmp, lk))
					lkLeft := cmp.X == lk.V
					var bad []string
					for b := 0; b < 256; b++ {
						var got bool
						if b < len(sv) {
							got = evalCmp(cmp.Op, int64(sv[b]), k, lkLeft)
						} else {
							got = false // guarded out: the && short-circuits to false
						}
						if got != cs.ref(b) {
							bad = append(bad, fmt.Sprintf("%#x", b))
						}
					}
					r.Check("R3", "consumer "+cs.fn, len(bad) == 0, p.Pos(cmp.Pos()),
						fmt.Sprintf("entry %s %d folded over 256 bytes must be: %s; differing bytes: %s", cmp.Op, k, cs.what, strings.Join(bad[:min(len(bad), 10)], " ")))
				}
			}
		}
	}
	r.Floor("R2", "table lookups", nLookups, 12)
	for _, cs := range consumerSpecs {
		if consumersSeen[cs.fn] == 0 {
			r.Undecided("R3", "consumer "+cs.fn, "function with a lookup of "+cs.table+" not found")
		}
	}

	// R4 AppendHTMLEscape
	if fn := p.Func("AppendHTMLEscape"); fn == nil {
		r.Undecided("R4", "AppendHTMLEscape", "function not found")
	} else {
		want := map[int64]string{'&': "&amp;", '<': "&lt;", '>': "&gt;", '"': "&#34;", '\'': "&#39;"}
		got := map[int64]string{}
		// each case: If (s[i] == c) -> block that assigns sub = "<const>" (phi edge const)
		for _, b := range fn.Blocks {
			ifi, ok := b.Instrs[len(b.Instrs)-1].(*ssa.If)
			if !ok {
				continue
			}
			bo, ok := ifi.Cond.(*ssa.BinOp)
			if !ok || bo.Op != token.EQL {
				continue
			}
			k, ok := constInt(bo.Y)
			if !ok {
				continue
			}
			if in, isIn := bo.X.(ssa.Instruction); !isIn || asStrIndex(in) == nil {
				continue
			}
			// find string constant flowing from the true successor into a phi
			succ := b.Succs[0]
			for _, blk := range fn.Blocks {
				for _, in := range blk.Instrs {
					phi, ok := in.(*ssa.Phi)
					if !ok {
						continue
					}
					for i, e := range phi.Edges {
						if blk.Preds[i] == succ || (blk.Preds[i] == b && blk == succ) {
							if s, ok := stringConst(e); ok && s != "" {
								got[k] = s
							}
						}
					}
				}
			}
		}
		okAll := len(got) == len(want)
		for k, v := range want {
			if got[k] != v {
				okAll = false
			}
		}
		r.Check("R4", "AppendHTMLEscape mapping", okAll, p.Pos(fn.Pos()), fmt.Sprintf("switch maps %v; html.EscapeString maps %v", fmtMap(got), fmtMap(want)))
		htmlEscapeSeesEveryByte(p, r)
	}

	// R5 canonicalisation shape
	if fn := p.Func("normalizeHeaderKeyValidated"); fn == nil {
		r.Undecided("R5", "normalizeHeaderKeyValidated", "function not found")
	} else {
		var up, lo *strIndex
		var dash *ssa.BinOp
		for _, b := range fn.Blocks {
			for _, in := range b.Instrs {
				if si := asStrIndex(in); si != nil {
					if c, ok := si.X.(*ssa.Const); ok && c.Value != nil && c.Value.Kind() == constant.String {
						switch constant.StringVal(c.Value) {
						case tables["toUpperTable"]:
							up = si
						case tables["toLowerTable"]:
							lo = si
						}
					}
					continue
				}
				switch in := in.(type) {
				case *ssa.BinOp:
					if in.Op == token.EQL {
						if k, ok := constInt(in.Y); ok && k == '-' {
							dash = in
						}
					}
				}
			}
		}
		ok := up != nil && lo != nil && dash != nil
		detail := "needs: upper-case table lookup, lower-case table lookup, and 'upper = (c == '-')' feeding the choice"
		if ok {
			// the flag choosing between the lookups is a phi of (true at entry, c=='-' on the back edge)
			ifUp := controllingIf(up.Block())
			if ifUp == nil {
				ok = false
			} else if phi, isPhi := ifUp.Cond.(*ssa.Phi); !isPhi {
				ok = false
			} else {
				sawTrue, sawDash := false, false
				for _, e := range phi.Edges {
					if c, isC := e.(*ssa.Const); isC && c.Value != nil && c.Value.Kind() == constant.Bool && constant.BoolVal(c.Value) {
						sawTrue = true
					}
					if e == ssa.Value(dash) {
						sawDash = true
					}
				}
				// true edge of the flag must lead to the upper lookup
				ok = sawTrue && sawDash && ifUp.Block().Succs[0] == up.Block() && dash.X != nil && derivesFromPhiOf(dash.X, up, lo)
			}
		}
		r.Check("R5", "normalizeHeaderKeyValidated shape", ok, p.Pos(fn.Pos()), detail)
	}
}

func fmtMap(m map[int64]string) string {
	var parts []string
	for _, k := range []int64{'"', '&', '\'', '<', '>'} {
		if v, ok := m[k]; ok {
			parts = append(parts, fmt.Sprintf("%q->%s", rune(k), v))
		}
	}
	for k, v := range m {
		switch k {
		case '"', '&', '\'', '<', '>':
		default:
			parts = append(parts, fmt.Sprintf("%q->%s", rune(k), v))
		}
	}
	return strings.Join(parts, " ")
}

// derivesFromPhiOf: v is a phi whose edges are exactly the two lookups.
func derivesFromPhiOf(v ssa.Value, a, b *strIndex) bool {
	phi, ok := v.(*ssa.Phi)
	if !ok || len(phi.Edges) != 2 {
		return false
	}
	return (phi.Edges[0] == a.V && phi.Edges[1] == b.V) || (phi.Edges[0] == b.V && phi.Edges[1] == a.V)
}

// strIndex is "X[Index]" on a string (ssa.Index or ssa.Lookup, depending on
// the x/tools version).
type strIndex struct {
	V     ssa.Value
	X     ssa.Value
	Index ssa.Value
	In    ssa.Instruction
}

func (s *strIndex) Block() *ssa.BasicBlock { return s.In.Block() }
func (s *strIndex) Pos() token.Pos         { return s.In.Pos() }

func asStrIndex(in ssa.Instruction) *strIndex {
	switch in := in.(type) {
	case *ssa.Lookup:
		if _, ok := in.X.Type().Underlying().(*types.Basic); ok {
			return &strIndex{V: in, X: in.X, Index: in.Index, In: in}
		}
	case *ssa.Index:
		if _, ok := in.X.Type().Underlying().(*types.Basic); ok {
			return &strIndex{V: in, X: in.X, Index: in.Index, In: in}
		}
	}
	return nil
}

// controllingIf returns the If that ends the unique predecessor of b.
func controllingIf(b *ssa.BasicBlock) *ssa.If {
	if len(b.Preds) != 1 {
		return nil
	}
	p := b.Preds[0]
	ifi, _ := p.Instrs[len(p.Instrs)-1].(*ssa.If)
	return ifi
}

func byteTyped(v ssa.Value) bool {
	for i := 0; i < 4; i++ {
		if isByte(v) {
			return true
		}
		switch w := v.(type) {
		case *ssa.Convert:
			v = w.X
		case *ssa.ChangeType:
			v = w.X
		default:
			return false
		}
	}
	return false
}

func isByte(v ssa.Value) bool {
	return v.Type().Underlying().String() == "uint8" || v.Type().Underlying().String() == "byte"
}

// indexGuarded: the lookup's block is only reachable through the true edge of
// "idx < k" with k <= n (or the false edge of idx >= k).
func indexGuarded(lk *strIndex, n int64) bool {
	idx := stripIntConv(lk.Index)
	for b := lk.Block(); b != nil; b = b.Idom() {
		for _, pred := range b.Preds {
			ifi, ok := pred.Instrs[len(pred.Instrs)-1].(*ssa.If)
			if !ok {
				continue
			}
			bo, ok := ifi.Cond.(*ssa.BinOp)
			if !ok {
				continue
			}
			k, isK := constInt(bo.Y)
			if !isK || stripIntConv(bo.X) != idx {
				continue
			}
			trueEdge := pred.Succs[0] == b
			if len(b.Preds) != 1 {
				continue
			}
			if bo.Op == token.LSS && trueEdge && k <= n {
				return true
			}
			if bo.Op == token.LEQ && trueEdge && k < n {
				return true
			}
			if bo.Op == token.GEQ && !trueEdge && k <= n {
				return true
			}
			if bo.Op == token.GTR && !trueEdge && k < n {
				return true
			}
		}
	}
	return false
}

func stripIntConv(v ssa.Value) ssa.Value {
	for i := 0; i < 4; i++ {
		switch w := v.(type) {
		case *ssa.Convert:
			v = w.X
		case *ssa.ChangeType:
			v = w.X
		default:
			return v
		}
	}
	return v
}

// soleCompare returns the single comparison-with-constant that consumes lk
// (looking through integer conversions), or nil.
func soleCompare(lk *strIndex) *ssa.BinOp {
	var cur ssa.Value = lk.V
	for i := 0; i < 3; i++ {
		refs := *cur.Referrers()
		var nonDbg []ssa.Instruction
		for _, rf := range refs {
			if _, ok := rf.(*ssa.DebugRef); !ok {
				nonDbg = append(nonDbg, rf)
			}
		}
		if len(nonDbg) != 1 {
			return nil
		}
		switch u := nonDbg[0].(type) {
		case *ssa.Convert:
			cur = u
		case *ssa.BinOp:
			switch u.Op {
			case token.EQL, token.NEQ, token.LSS, token.LEQ, token.GTR, token.GEQ:
				if _, ok := constInt(otherOperandV(u, cur)); ok {
					// rewrite so that callers can treat lk as operand
					if u.X == cur {
						return &ssa.BinOp{Op: u.Op, X: lk.V, Y: u.Y}
					}
					return &ssa.BinOp{Op: u.Op, X: u.X, Y: lk.V}
				}
			}
			return nil
		default:
			return nil
		}
	}
	return nil
}

func otherOperandV(b *ssa.BinOp, v ssa.Value) ssa.Value {
	if b.X == v {
		return b.Y
	}
	return b.X
}

func otherOperand(b *ssa.BinOp, lk *strIndex) ssa.Value {
	if b.X == lk.V {
		return b.Y
	}
	return b.X
}

func evalCmp(op token.Token, entry, k int64, entryLeft bool) bool {
	a, b := entry, k
	if !entryLeft {
		a, b = k, entry
	}
	switch op {
	case token.EQL:
		return a == b
	case token.NEQ:
		return a != b
	case token.LSS:
		return a < b
	case token.LEQ:
		return a <= b
	case token.GTR:
		return a > b
	case token.GEQ:
		return a >= b
	}
	return false
}

// ---------------------------------------------------------------- C30

func runC30(p *Prog, r *Report) {
	scratchNotRecycledEarly(p, r)
	digitsOnlyAccumulate(p, r)
	verdictFromTheScanOnly(p, r)
	pkg := p.byPath[rootPkg].Types
	wordBits := 64
	if p.Arch == "386" || p.Arch == "arm" {
		wordBits = 32
	}
	maxInt := new(big.Int).Sub(new(big.Int).Lsh(big.NewInt(1), uint(wordBits-1)), big.NewInt(1))
	getC := func(name string) (*big.Int, bool) {
		cv, ok := constOfObj(pkg, name)
		if !ok {
			r.Undecided("R1", "constant "+name, "not found")
			return nil, false
		}
		iv := constant.ToInt(cv)
		if iv.Kind() != constant.Int {
			r.Undecided("R1", "constant "+name, "not an integer constant")
			return nil, false
		}
		b, ok := new(big.Int).SetString(iv.ExactString(), 10)
		return b, ok
	}
	div10, ok1 := getC("maxIntDiv10")
	safe, ok2 := getC("maxSafeIntDigits")
	hexc, ok3 := getC("maxHexIntChars")
	ten := big.NewInt(10)
	if ok1 {
		want := new(big.Int).Div(maxInt, ten)
		r.Check("R1", "maxIntDiv10 == floor(MaxInt/10)", div10.Cmp(want) == 0, "bytesconv.go", fmt.Sprintf("[%d-bit] got %s want %s", wordBits, div10, want))
		// decisive sign test: v <= div10 => 10v+9 <= 10*div10+9 < 2^w, so a wrapped product is negative
		lim := new(big.Int).Add(new(big.Int).Mul(div10, ten), big.NewInt(9))
		r.Check("R1", "10*maxIntDiv10+9 < 2^wordsize", lim.Cmp(new(big.Int).Lsh(big.NewInt(1), uint(wordBits))) < 0, "bytesconv.go", fmt.Sprintf("[%d-bit] 10*maxIntDiv10+9 = %s", wordBits, lim))
	}
	if ok2 {
		pow := new(big.Int).Exp(ten, safe, nil)
		pow.Sub(pow, big.NewInt(1))
		r.Check("R1", "10^maxSafeIntDigits-1 <= MaxInt", pow.Cmp(maxInt) <= 0 && safe.Sign() > 0, "bytesconv.go", fmt.Sprintf("[%d-bit] maxSafeIntDigits=%s", wordBits, safe))
	}
	if ok3 {
		pow := new(big.Int).Exp(big.NewInt(16), hexc, nil)
		pow.Sub(pow, big.NewInt(1))
		r.Check("R1", "16^maxHexIntChars-1 <= MaxInt", pow.Cmp(maxInt) <= 0 && hexc.Sign() > 0, "bytesconv_64.go/bytesconv_32.go", fmt.Sprintf("[%d-bit] maxHexIntChars=%s", wordBits, hexc))
	}

	// R2 parseUintBuf guard
	if fn := p.Func("parseUintBuf"); fn == nil {
		r.Undecided("R2", "parseUintBuf", "function not found")
	} else if ok1 && ok2 {
		checkParseUintGuard(p, r, fn, div10.Int64(), safe.Int64())
	}

	// R3 readHexInt
	if fn := p.Func("readHexInt"); fn == nil {
		r.Undecided("R3", "readHexInt", "function not found")
	} else if ok3 {
		checkHexGuard(p, r, fn, hexc.Int64())
	}

	// R4 ParseUint: n != len(buf) => error
	if fn := p.Func("ParseUint"); fn == nil {
		r.Undecided("R4", "ParseUint", "function not found")
	} else {
		checkParseUintWhole(p, r, fn)
	}

	// R5 negative rejected before formatting
	for _, name := range []string{"AppendUint", "writeHexInt"} {
		fn := p.Func(name)
		if fn == nil {
			r.Undecided("R5", name, "function not found")
			continue
		}
		checkNegativeRejected(p, r, fn)
	}
	// hex buffer large enough: make([]byte, maxHexIntChars+1) holds hex digits of MaxInt
	if fn := p.Func("writeHexInt"); fn != nil && ok3 {
		digits := int64((wordBits - 1 + 3) / 4)
		found := false
		for _, b := range fn.Blocks {
			for _, in := range b.Instrs {
				k := int64(-1)
				switch in := in.(type) {
				case *ssa.MakeSlice:
					if kk, ok := constInt(in.Len); ok {
						k = kk
					}
				case *ssa.Alloc:
					// make([]byte, CONST) is lowered to new([CONST]byte)[:]
					if pt, ok := in.Type().Underlying().(*types.Pointer); ok {
						if at, ok := pt.Elem().Underlying().(*types.Array); ok {
							k = at.Len()
						}
					}
				}
				if k >= 0 {
					found = true
					r.Check("R1", "writeHexInt buffer holds all hex digits of MaxInt", k >= digits, p.Pos(in.Pos()), fmt.Sprintf("[%d-bit] buffer len %d, MaxInt has %d hex digits", wordBits, k, digits))
				}
			}
		}
		if !found {
			r.Undecided("R1", "writeHexInt buffer", "constant-size make not found")
		}
	}
}

// checkParseUintGuard explores parseUintBuf: at every loop back-edge that
// carries a new accumulator value, the path must have passed
// (i < safe) or (not v > div10 and not vNew < 0).
func checkParseUintGuard(p *Prog, r *Report, fn *ssa.Function, div10, safe int64) {
	const (
		evFew    = 1 << iota // took the edge meaning "i < maxSafeIntDigits"
		evNotGt              // took the edge meaning !(v > maxIntDiv10)
		evNotNeg             // took the edge meaning !(vNew < 0)
	)
	// identify the accumulator phi: a phi with a back-edge operand that is an ADD of (10*phi) and a digit
	var acc *ssa.Phi
	var vNew *ssa.BinOp
	for _, b := range fn.Blocks {
		for _, in := range b.Instrs {
			phi, ok := in.(*ssa.Phi)
			if !ok {
				continue
			}
			for _, e := range phi.Edges {
				if add, ok := e.(*ssa.BinOp); ok && add.Op == token.ADD {
					for _, side := range []ssa.Value{add.X, add.Y} {
						if mul, ok := side.(*ssa.BinOp); ok && mul.Op == token.MUL {
							k1, okc1 := constInt(mul.X)
							k2, okc2 := constInt(mul.Y)
							if (okc1 && k1 == 10 && mul.Y == ssa.Value(phi)) || (okc2 && k2 == 10 && mul.X == ssa.Value(phi)) {
								acc, vNew = phi, add
							}
						}
					}
				}
			}
		}
	}
	if acc == nil {
		r.Undecided("R2", "parseUintBuf accumulator", "no phi updated as 10*v+digit found")
		return
	}
	sawGt, sawNeg, sawFew := false, false, false
	violations := 0
	backEdges := 0
	var witness []string
	h := Hooks{
		Branch: func(x *Explorer, st *State, cond ssa.Value, taken bool, from *ssa.BasicBlock) {
			bo, ok := cond.(*ssa.BinOp)
			if !ok {
				return
			}
			// v > div10   (or div10 < v)
			if k, okk := constInt(bo.Y); okk && bo.X == ssa.Value(acc) && k == div10 {
				switch bo.Op {
				case token.GTR:
					sawGt = true
					if !taken {
						st.Set(evNotGt)
					}
				case token.LEQ:
					sawGt = true
					if taken {
						st.Set(evNotGt)
					}
				}
			}
			if k, okk := constInt(bo.Y); okk && bo.X == ssa.Value(vNew) && k == 0 {
				switch bo.Op {
				case token.LSS:
					sawNeg = true
					if !taken {
						st.Set(evNotNeg)
					}
				case token.GEQ:
					sawNeg = true
					if taken {
						st.Set(evNotNeg)
					}
				}
			}
			// i >= safe (index compare); the index is any int value compared with safe that is not acc/vNew
			if k, okk := constInt(bo.Y); okk && bo.X != ssa.Value(acc) && bo.X != ssa.Value(vNew) && k <= safe && k > 0 && isIntTyped(bo.X) {
				switch bo.Op {
				case token.GEQ:
					sawFew = true
					if !taken {
						st.Set(evFew)
					}
				case token.LSS:
					sawFew = true
					if taken {
						st.Set(evFew)
					}
				}
			}
		},
		Edge: func(x *Explorer, st *State, from, to *ssa.BasicBlock) {
			if to == acc.Block() {
				// which operand flows in?
				for i, pr := range to.Preds {
					if pr == from && acc.Edges[i] == ssa.Value(vNew) {
						backEdges++
						if !(st.Has(evFew) || (st.Has(evNotGt) && st.Has(evNotNeg))) {
							violations++
							if witness == nil {
								witness = x.Path(st)
							}
						}
					}
				}
				st.Clear(evFew | evNotGt | evNotNeg)
			}
		},
	}
	x := NewExplorer(p, fn, h)
	x.Run(nil)
	r.Counts["R2 parseUintBuf states"] = x.States
	if x.Aborted || backEdges == 0 {
		r.Undecided("R2", "parseUintBuf guard", "exploration aborted or no accumulator back-edge seen")
		return
	}
	r.Check("R2", "parseUintBuf: guard tests v > maxIntDiv10", sawGt, p.Pos(fn.Pos()), fmt.Sprintf("comparison of the accumulator with %d", div10))
	r.Check("R2", "parseUintBuf: guard tests vNew < 0", sawNeg, p.Pos(fn.Pos()), "sign test of the new accumulator")
	r.Check("R2", "parseUintBuf: fast path bounded by maxSafeIntDigits", sawFew, p.Pos(fn.Pos()), fmt.Sprintf("digit-index test against a constant <= %d", safe))
	r.Check("R2", "parseUintBuf: accumulator update guarded on every path", violations == 0, p.Pos(vNew.Pos()),
		fmt.Sprintf("%d of %d explored back-edge arrivals carried 10*v+k without (i<maxSafeIntDigits) or (v<=maxIntDiv10 and vNew>=0)", violations, backEdges), witness...)
	// the overflow outcome must return a non-nil error
	checkErrReturnOnEdge(p, r, fn, "R2", "parseUintBuf: overflow returns error", func(bo *ssa.BinOp) (bool, bool) {
		if k, okk := constInt(bo.Y); okk && bo.X == ssa.Value(vNew) && k == 0 && bo.Op == token.LSS {
			return true, true // true edge is the error edge
		}
		if k, okk := constInt(bo.Y); okk && bo.X == ssa.Value(acc) && k == div10 && bo.Op == token.GTR {
			return true, true
		}
		return false, false
	})
}

func isIntTyped(v ssa.Value) bool {
	s := v.Type().Underlying().String()
	return s == "int"
}

// checkErrReturnOnEdge: for each If whose condition is selected by sel, every
// return reachable from the selected edge without passing the loop header
// again... simplified: the selected successor block (and blocks it alone
// dominates up to a Return) returns a non-nil error constant/global.
func checkErrReturnOnEdge(p *Prog, r *Report, fn *ssa.Function, rule, construct string, sel func(*ssa.BinOp) (match bool, trueEdge bool)) {
	n := 0
	okAll := true
	pos := fn.Pos()
	for _, b := range fn.Blocks {
		ifi, ok := b.Instrs[len(b.Instrs)-1].(*ssa.If)
		if !ok {
			continue
		}
		bo, ok := ifi.Cond.(*ssa.BinOp)
		if !ok {
			continue
		}
		m, te := sel(bo)
		if !m {
			continue
		}
		succ := b.Succs[1]
		if te {
			succ = b.Succs[0]
		}
		// follow unconditional chain / short-circuit join to a return
		ret := findReturnFrom(succ, 4)
		n++
		if ret == nil || !returnsNonNilError(ret) {
			okAll = false
			pos = ifi.Pos()
		}
	}
	if n == 0 {
		r.Undecided(rule, construct, "no matching guard edge found")
		return
	}
	r.Check(rule, construct, okAll, p.Pos(pos), fmt.Sprintf("%d guard edges must lead to a return with a non-nil error", n))
}

// findReturnFrom follows blocks with a single successor to a Return; for
// short-circuit joins (block ending in If that re-tests) it gives up.
func findReturnFrom(b *ssa.BasicBlock, depth int) *ssa.Return {
	for i := 0; i < depth && b != nil; i++ {
		last := b.Instrs[len(b.Instrs)-1]
		switch t := last.(type) {
		case *ssa.Return:
			return t
		case *ssa.Jump:
			b = b.Succs[0]
		default:
			return nil
		}
	}
	return nil
}

func returnsNonNilError(ret *ssa.Return) bool {
	for _, res := range ret.Results {
		if !isErrorType(res.Type()) {
			continue
		}
		if isNilConst(res) {
			return false
		}
		// a load of a package-level error variable, or a call result (fmt.Errorf) counts as non-nil
		return true
	}
	return false
}

func isErrorType(t interface{ String() string }) bool { return t.String() == "error" }

func checkHexGuard(p *Prog, r *Report, fn *ssa.Function, maxChars int64) {
	// find every n = (n << 4) | k: each accumulate step is guarded on its own (a fast path with a second one
	// is a second way into the value)
	var shls []*ssa.BinOp
	for _, b := range fn.Blocks {
		for _, in := range b.Instrs {
			if bo, ok := in.(*ssa.BinOp); ok && bo.Op == token.SHL {
				if k, ok := constInt(bo.Y); ok && k == 4 {
					shls = append(shls, bo)
				}
			}
		}
	}
	if len(shls) == 0 {
		r.Undecided("R3", "readHexInt shift", "no '<< 4' found")
		return
	}
	for i, shl := range shls {
		checkHexGuardAt(p, r, fn, maxChars, shl, i)
	}
}

func checkHexGuardAt(p *Prog, r *Report, fn *ssa.Function, maxChars int64, shl *ssa.BinOp, idx int) {
	// the block of shl must be reachable only via the false edge of (i >= maxChars') with maxChars' <= maxChars
	ok := false
	var witnessPos = shl.Pos()
	for b := shl.Block(); b != nil && !ok; b = b.Idom() {
		if len(b.Preds) != 1 {
			continue
		}
		pred := b.Preds[0]
		ifi, isIf := pred.Instrs[len(pred.Instrs)-1].(*ssa.If)
		if !isIf {
			continue
		}
		bo, isBo := ifi.Cond.(*ssa.BinOp)
		if !isBo {
			continue
		}
		k, isK := constInt(bo.Y)
		if !isK || !isIntTyped(bo.X) {
			continue
		}
		trueEdge := pred.Succs[0] == b
		// the counted variable must be incremented by one per digit: phi with +1 back edge
		if !isUnitCounter(bo.X) {
			continue
		}
		switch {
		case bo.Op == token.GEQ && !trueEdge && k <= maxChars && k > 0:
			ok = true
		case bo.Op == token.GTR && !trueEdge && k < maxChars && k >= 0:
			ok = true
		case bo.Op == token.LSS && trueEdge && k <= maxChars && k > 0:
			ok = true
		case bo.Op == token.LEQ && trueEdge && k < maxChars && k >= 0:
			ok = true
		}
		if ok {
			// and the other edge must return an error
			other := pred.Succs[0]
			if trueEdge {
				other = pred.Succs[1]
			}
			ret := findReturnFrom(other, 4)
			if ret == nil || !returnsNonNilError(ret) {
				ok = false
				witnessPos = ifi.Pos()
			}
		}
	}
	what := "readHexInt: shift-accumulate dominated by digit-count guard"
	if idx > 0 {
		what = fmt.Sprintf("readHexInt: shift-accumulate #%d dominated by digit-count guard", idx+1)
	}
	r.Check("R3", what, ok, p.Pos(witnessPos),
		fmt.Sprintf("n = n<<4|k must only run while fewer than maxHexIntChars=%d digits were accumulated, the other edge returning an error", maxChars))
}

// isUnitCounter: v is a phi one of whose edges is v+1 and another the constant 0.
func isUnitCounter(v ssa.Value) bool {
	phi, ok := v.(*ssa.Phi)
	if !ok {
		return false
	}
	inc, zero := false, false
	for _, e := range phi.Edges {
		if k, ok := constInt(e); ok && k == 0 {
			zero = true
		}
		if add, ok := e.(*ssa.BinOp); ok && add.Op == token.ADD {
			if k, ok := constInt(add.Y); ok && k == 1 && add.X == ssa.Value(phi) {
				inc = true
			}
		}
	}
	return inc && zero
}

func checkParseUintWhole(p *Prog, r *Report, fn *ssa.Function) {
	// must call parseUintBuf and compare its 2nd result with len(buf); on inequality return non-nil error
	var call *ssa.Call
	target := p.Func("parseUintBuf")
	for _, b := range fn.Blocks {
		for _, in := range b.Instrs {
			if c, ok := in.(*ssa.Call); ok && isCallTo(c, target) {
				call = c
			}
		}
	}
	if call == nil {
		r.Undecided("R4", "ParseUint", "does not call parseUintBuf")
		return
	}
	ok := false
	pos := fn.Pos()
	for _, b := range fn.Blocks {
		ifi, isIf := b.Instrs[len(b.Instrs)-1].(*ssa.If)
		if !isIf {
			continue
		}
		bo, isBo := ifi.Cond.(*ssa.BinOp)
		if !isBo || (bo.Op != token.NEQ && bo.Op != token.EQL) {
			continue
		}
		isN := func(v ssa.Value) bool {
			ex, ok := v.(*ssa.Extract)
			return ok && ex.Tuple == ssa.Value(call) && ex.Index == 1
		}
		isLen := func(v ssa.Value) bool {
			c, ok := v.(*ssa.Call)
			if !ok {
				return false
			}
			bi, ok := c.Call.Value.(*ssa.Builtin)
			return ok && bi.Name() == "len" && len(c.Call.Args) == 1 && c.Call.Args[0] == ssa.Value(fn.Params[0])
		}
		if !((isN(bo.X) && isLen(bo.Y)) || (isN(bo.Y) && isLen(bo.X))) {
			continue
		}
		errSucc := b.Succs[0]
		if bo.Op == token.EQL {
			errSucc = b.Succs[1]
		}
		ret := findReturnFrom(errSucc, 3)
		pos = ifi.Pos()
		ok = ret != nil && returnsNonNilError(ret)
	}
	r.Check("R4", "ParseUint: partial consumption is an error", ok, p.Pos(pos), "consumed-count of parseUintBuf compared with len(buf); the unequal edge returns a non-nil error")
}

func checkNegativeRejected(p *Prog, r *Report, fn *ssa.Function) {
	// entry path: If (n < 0) -> panic/return before any formatting call / table lookup
	if len(fn.Params) == 0 {
		r.Undecided("R5", fn.Name(), "no parameters")
		return
	}
	var nparam ssa.Value
	for _, prm := range fn.Params {
		if isIntTyped(prm) {
			nparam = prm
		}
	}
	ok := false
	entry := fn.Blocks[0]
	if ifi, isIf := entry.Instrs[len(entry.Instrs)-1].(*ssa.If); isIf {
		if bo, isBo := ifi.Cond.(*ssa.BinOp); isBo && bo.X == nparam {
			if k, isK := constInt(bo.Y); isK && k == 0 && bo.Op == token.LSS {
				// true edge must end in panic or return without reaching the other successor
				succ := entry.Succs[0]
				last := succ.Instrs[len(succ.Instrs)-1]
				switch last.(type) {
				case *ssa.Panic, *ssa.Return:
					ok = true
				}
			}
		}
	}
	r.Check("R5", fn.Name()+": negative input rejected first", ok, p.Pos(fn.Pos()), "entry block tests n < 0 and leaves (panic/return) before formatting")
}

// scratchNotRecycledEarly (C30.R6): no use of a pooled scratch buffer after it
// went back to its pool, in the functions of the integer codecs.
func scratchNotRecycledEarly(p *Prog, r *Report) {
	n := 0
	for _, fn := range p.funcsIn("") {
		file := p.Fset.Position(fn.Pos()).Filename
		if !strings.Contains(file, "bytesconv") {
			continue
		}
		for _, b := range fn.Blocks {
			for _, in := range b.Instrs {
				c, ok := in.(ssa.CallInstruction)
				if !ok {
					continue
				}
				f := c.Common().StaticCallee()
				if f == nil || f.Name() != "Put" || recvTypeName(f) != "Pool" || len(c.Common().Args) != 2 {
					continue
				}
				n++
				// everything that shares storage with the pooled value
				alias := map[ssa.Value]bool{c.Common().Args[1]: true}
				for changed := true; changed; {
					changed = false
					add := func(v ssa.Value) {
						if v != nil && !alias[v] {
							alias[v] = true
							changed = true
						}
					}
					for v := range alias {
						switch w := v.(type) {
						case *ssa.MakeInterface:
							add(w.X)
						case *ssa.TypeAssert:
							add(w.X)
						case *ssa.Extract:
							add(w.Tuple)
						case *ssa.Slice:
							add(w.X)
						case *ssa.UnOp:
							add(w.X)
						}
					}
					for _, bb := range fn.Blocks {
						for _, i2 := range bb.Instrs {
							v, isV := i2.(ssa.Value)
							if !isV || alias[v] {
								continue
							}
							switch w := i2.(type) {
							case *ssa.TypeAssert:
								if alias[w.X] {
									add(v)
								}
							case *ssa.Extract:
								if alias[w.Tuple] {
									add(v)
								}
							case *ssa.Slice:
								if alias[w.X] {
									add(v)
								}
							case *ssa.IndexAddr:
								if alias[w.X] {
									add(v)
								}
							case *ssa.UnOp:
								if w.Op == token.MUL && alias[w.X] {
									add(v)
								}
							case *ssa.Phi:
								for _, e := range w.Edges {
									if alias[e] {
										add(v)
									}
								}
							}
						}
					}
				}
				hit, path := reachAvoiding(fn, in, func(i ssa.Instruction) bool {
					if i == in {
						return false
					}
					var ops []*ssa.Value
					for _, op := range i.Operands(ops) {
						if op != nil && *op != nil && alias[*op] {
							if _, isDbg := i.(*ssa.DebugRef); isDbg {
								continue
							}
							return true
						}
					}
					return false
				}, nil, nil)
				pos := p.Pos(in.Pos())
				if hit != nil {
					pos = p.Pos(hit.Pos())
				}
				r.Check("R6", fmt.Sprintf("%s: the pooled scratch buffer is not touched after it was given back to its pool", funcName(fn)), hit == nil, pos,
					"the buffer (or a slice of it) is used after Pool.Put: the next Get may hand it to another formatter, which overwrites the digits before they are written out, so a chunk size on the wire differs from the chunk's length", blocksString(p, path)...)
			}
		}
	}
	r.Floor("R6", "Pool.Put calls in the integer codecs", n, 1)
}

// digitsOnlyAccumulate (C30.R7): ParseUint must accept the ASCII decimal
// strings only, so every byte that contributes to the value has passed the
// digit-class test. In parseUintBuf the value returned with a nil error is
// followed back through its merges: every source is a constant, or one
// accumulate step 10*acc + k in which k is (input byte - '0') and the step is
// only reached when the test 'k > 9' failed. Any other source (a value
// converted in bulk, a callee's result) carries bytes for which that test
// cannot be established.
func digitsOnlyAccumulate(p *Prog, r *Report) {
	fn := p.Func("parseUintBuf")
	if fn == nil {
		r.Undecided("R7", "parseUintBuf", "anchor not found")
		return
	}
	var bad []string
	steps := 0
	seen := map[ssa.Value]bool{}
	isDigitOf := func(k ssa.Value) (ssa.Value, bool) { // k == byte - '0'
		if cv, ok := k.(*ssa.Convert); ok {
			k = cv.X
		}
		bo, ok := k.(*ssa.BinOp)
		if !ok || bo.Op != token.SUB {
			return nil, false
		}
		if c, okc := constInt(bo.Y); !okc || c != '0' {
			return nil, false
		}
		if bt, isB := bo.X.Type().Underlying().(*types.Basic); !isB || bt.Kind() != types.Uint8 {
			return nil, false
		}
		return bo, true
	}
	var walk func(v ssa.Value)
	walk = func(v ssa.Value) {
		if seen[v] {
			return
		}
		seen[v] = true
		switch w := v.(type) {
		case *ssa.Const:
		case *ssa.Phi:
			for _, e := range w.Edges {
				walk(e)
			}
		case *ssa.BinOp:
			if w.Op == token.ADD {
				for _, pair := range [][2]ssa.Value{{w.X, w.Y}, {w.Y, w.X}} {
					mul, okm := pair[0].(*ssa.BinOp)
					if !okm || mul.Op != token.MUL {
						continue
					}
					var acc ssa.Value
					if c, okc := constInt(mul.X); okc && c == 10 {
						acc = mul.Y
					} else if c, okc := constInt(mul.Y); okc && c == 10 {
						acc = mul.X
					}
					k, okk := isDigitOf(pair[1])
					if acc == nil || !okk {
						continue
					}
					// the step is reached only when 'k > 9' failed (or 'k <= 9' held)
					tested := false
					for _, g := range guardsOfDepth(w.Block(), 0) {
						if cb, okc := g.Cond.(*ssa.BinOp); okc && cb.X == k {
							if c, okc := constInt(cb.Y); okc && c == 9 && ((cb.Op == token.GTR && !g.Pol) || (cb.Op == token.LEQ && g.Pol)) {
								tested = true
							}
						}
					}
					steps++
					if !tested {
						bad = append(bad, "the accumulate step at "+p.Pos(w.Pos())+" is reachable without the digit test of its byte")
					}
					walk(acc)
					return
				}
			}
			bad = append(bad, fmt.Sprintf("the value takes %s computed at %s, which is not a digit-by-digit accumulate step", w.Op, p.Pos(w.Pos())))
		default:
			bad = append(bad, fmt.Sprintf("the value comes from %s at %s: the bytes behind it have not individually passed the digit test", strings.TrimPrefix(fmt.Sprintf("%T", v), "*ssa."), p.Pos(firstPos(fn, v.Pos()))))
		}
	}
	rets := 0
	for _, b := range fn.Blocks {
		rt, ok := b.Instrs[len(b.Instrs)-1].(*ssa.Return)
		if !ok {
			continue
		}
		rr := returnResults(rt)
		if len(rr) != 3 || !isNilConst(rr[2]) {
			continue
		}
		rets++
		walk(rr[0])
	}
	sort.Strings(bad)
	r.Check("R7", "parseUintBuf: every byte that contributes to a value returned without error has passed the digit test", len(bad) == 0 && steps > 0 && rets > 0, p.Pos(fn.Pos()),
		strings.Join(bad, "; ")+" - ParseUint would return a number for input that is not an ASCII decimal string (Content-Length, Range and cookie max-age go through it)")
}

// verdictFromTheScanOnly (C30.R8): ParseUint accepts exactly the decimal strings whose value fits an int. Whether
// a string qualifies is decided by scanning it (leading zeros make long strings with small values): no return of
// ParseUint is reachable without the scan, so nothing - a length shortcut in particular - accepts or rejects
// before the digits were looked at.
func verdictFromTheScanOnly(p *Prog, r *Report) {
	fn := p.Func("ParseUint")
	scan := p.Func("parseUintBuf")
	if fn == nil || scan == nil {
		r.Undecided("R8", "ParseUint / parseUintBuf", "not found")
		return
	}
	hit, path := reachAvoiding(fn, nil, isReturn, func(i ssa.Instruction) bool {
		c, ok := i.(ssa.CallInstruction)
		return ok && c.Common().StaticCallee() == scan
	}, nil)
	r.Check("R8", "ParseUint: every return follows the scan of the input by parseUintBuf", hit == nil, p.Pos(fn.Pos()),
		"a return is reachable before the digits were scanned: a verdict taken from the length of the input alone rejects zero-padded numerals whose value fits an int (or accepts something the scan would refuse)", blocksString(p, path)...)
}

// htmlEscapeSeesEveryByte (C32.R6): the five replacements of R4 only help if every byte reaches the switch. Each
// return of AppendHTMLEscape lies behind the per-byte loop, or behind a fast path whose test covers all five
// escaped bytes (IndexAny / ContainsAny with a constant set that contains them all).
func htmlEscapeSeesEveryByte(p *Prog, r *Report) {
	fn := p.Func("AppendHTMLEscape")
	if fn == nil {
		r.Undecided("R6", "AppendHTMLEscape", "not found")
		return
	}
	// the loop that inspects the bytes: the loop header of the block that loads s[i] for the switch
	var header *ssa.BasicBlock
	for _, b := range fn.Blocks {
		for _, in := range b.Instrs {
			var base ssa.Value
			switch w := in.(type) {
			case *ssa.Lookup:
				base = w.X
			case *ssa.Index:
				base = w.X
			}
			if base == ssa.Value(fn.Params[1]) {
				if h := loopHeaderOf(b); h != nil {
					header = h
				}
			}
		}
	}
	if header == nil {
		r.Undecided("R6", "AppendHTMLEscape: per-byte loop", "not recognised")
		return
	}
	want := []byte{'&', '<', '>', '"', '\''}
	var bad []string
	for _, b := range fn.Blocks {
		rt, ok := b.Instrs[len(b.Instrs)-1].(*ssa.Return)
		if !ok {
			continue
		}
		if header.Dominates(b) {
			continue
		}
		covered := false
		for _, g := range guardsOfDepth(b, 0) {
			var c *ssa.Call
			switch w := g.Cond.(type) {
			case *ssa.BinOp:
				c, _ = w.X.(*ssa.Call) // IndexAny(s, set) < 0
			case *ssa.Call:
				if !g.Pol {
					c = w // !ContainsAny(s, set)
				}
			}
			if c == nil || c.Call.StaticCallee() == nil || !(strings.HasSuffix(c.Call.StaticCallee().Name(), "IndexAny") || strings.HasSuffix(c.Call.StaticCallee().Name(), "ContainsAny")) || len(c.Call.Args) != 2 {
				continue
			}
			set, ok := stringConst(c.Call.Args[1])
			if !ok {
				continue
			}
			all := true
			for _, w := range want {
				if !strings.ContainsRune(set, rune(w)) {
					all = false
				}
			}
			if all {
				covered = true
			}
		}
		if !covered {
			bad = append(bad, p.Pos(rt.Pos()))
		}
	}
	sort.Strings(bad)
	r.Check("R6", "AppendHTMLEscape: every return lies behind the per-byte switch or behind a test that covers all five escaped bytes", len(bad) == 0, p.Pos(fn.Pos()),
		"returns at "+strings.Join(bad, ", ")+" copy the input without every byte having reached the switch: a string whose only special byte is not in the shortcut's set (an apostrophe) goes out unescaped, unlike html.EscapeString")
}
