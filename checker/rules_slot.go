package main

// R-slot (C28, C29): a recycled entry is completely overwritten before it is
// kept. allocArg hands out the next element of a []argsKV by reslicing into
// spare capacity, so the element still holds the key, value and no-value flag
// of whatever entry lived there before Reset(). Every function that obtains a
// slot this way must, on every path on which the slot stays in the slice (the
// next allocArg, or a return without releaseArg), have stored all the fields
// that readers of that container consult - directly, or through a filler
// routine (argsScanner.next, cookieScanner.next) whose "filled" returns store
// them on every path.

import (
	"fmt"
	"go/token"
	"go/types"
	"sort"
	"strings"

	"golang.org/x/tools/go/ssa"
)

const (
	slotKey uint64 = 1 << iota
	slotValue
	slotFlag
	slotOpen
)

func slotBit(field string) uint64 {
	switch field {
	case "key":
		return slotKey
	case "value":
		return slotValue
	case "noValue":
		return slotFlag
	}
	return 0
}

func slotBitsString(b uint64) string {
	var s []string
	for _, f := range []string{"key", "value", "noValue"} {
		if b&slotBit(f) != 0 {
			s = append(s, f)
		}
	}
	return strings.Join(s, ",")
}

type slotFiller struct {
	bits uint64 // stored on every path to a return that does not report false
	wit  []string
	pos  token.Pos
	n    int
}

type slotAnalysis struct {
	p     *Prog
	memo  map[string]*slotFiller
	alloc *ssa.Function
}

// slotTarget: which slot field does a store through addr write, given the
// binding of the function's parameters (param -> "" for the whole entry, or a
// field name for a pointer to that field) and, in the obtaining function, the
// predicate recognising the slot itself.
func slotTarget(addr ssa.Value, isSlot func(ssa.Value) bool, bind map[*ssa.Parameter]string) uint64 {
	if fa, ok := addr.(*ssa.FieldAddr); ok && typeNameOf(fa.X) == "argsKV" {
		if isSlot(fa.X) {
			return slotBit(fieldName(fa.X.Type(), fa.Field))
		}
		return 0
	}
	if prm, ok := addr.(*ssa.Parameter); ok {
		if f, bound := bind[prm]; bound && f != "" {
			return slotBit(f)
		}
	}
	return 0
}

// argBinding: how a call passes the slot on: index -> "" (the entry) or a field name.
func slotArgBinding(call ssa.CallInstruction, isSlot func(ssa.Value) bool, bind map[*ssa.Parameter]string) map[int]string {
	out := map[int]string{}
	for i, a := range call.Common().Args {
		if isSlot(a) {
			out[i] = ""
			continue
		}
		if fa, ok := a.(*ssa.FieldAddr); ok && typeNameOf(fa.X) == "argsKV" && isSlot(fa.X) {
			out[i] = fieldName(fa.X.Type(), fa.Field)
			continue
		}
		if prm, ok := a.(*ssa.Parameter); ok {
			if f, bound := bind[prm]; bound {
				out[i] = f
			}
		}
	}
	return out
}

// filler summarises fn called with the given binding.
func (sa *slotAnalysis) filler(fn *ssa.Function, binding map[int]string, depth int) *slotFiller {
	var ks []string
	for i, f := range binding {
		ks = append(ks, fmt.Sprintf("%d=%s", i, f))
	}
	sort.Strings(ks)
	key := funcName(fn) + "|" + strings.Join(ks, ",")
	if s, ok := sa.memo[key]; ok {
		return s
	}
	res := &slotFiller{}
	sa.memo[key] = res
	if fn.Blocks == nil || depth <= 0 {
		return res
	}
	off := 0
	if fn.Signature.Recv() != nil {
		off = 0 // fn.Params already includes the receiver, as do call Args of static calls
	}
	bind := map[*ssa.Parameter]string{}
	for i, f := range binding {
		if i+off < len(fn.Params) {
			bind[fn.Params[i+off]] = f
		}
	}
	isSlot := func(v ssa.Value) bool {
		prm, ok := v.(*ssa.Parameter)
		if !ok {
			return false
		}
		f, bound := bind[prm]
		return bound && f == ""
	}
	first := true
	x := NewExplorer(sa.p, fn, Hooks{
		Instr: func(x *Explorer, st *State, in ssa.Instruction) {
			switch in := in.(type) {
			case *ssa.Store:
				st.Ev |= slotTarget(in.Addr, isSlot, bind)
			case ssa.CallInstruction:
				callee := in.Common().StaticCallee()
				if callee == nil || !inModule(callee) {
					return
				}
				if b2 := slotArgBinding(in, isSlot, bind); len(b2) > 0 {
					st.Ev |= sa.filler(callee, b2, depth-1).bits
				}
			}
		},
		Exit: func(x *Explorer, st *State, ret *ssa.Return, pan *ssa.Panic) {
			if ret == nil {
				return
			}
			// a filler that reports "nothing produced" leaves the slot to be released by its caller
			if len(ret.Results) == 1 && isBool(ret.Results[0].Type()) && x.Eval(st, ret.Results[0]) == False {
				return
			}
			res.n++
			got := st.Ev & (slotKey | slotValue | slotFlag)
			if first {
				res.bits = got
				first = false
			}
			if res.bits&^got != 0 || (res.wit == nil && got != slotKey|slotValue|slotFlag) {
				res.wit = x.Path(st)
				res.pos = ret.Pos()
			}
			res.bits &= got
		},
	})
	x.Filter = noIntFilter
	x.Run(nil)
	if x.Aborted {
		res.bits = 0
	}
	return res
}

// containerFields: the struct fields the slice handed to allocArg may come
// from ("?" when it cannot be traced).
func (sa *slotAnalysis) containerFields(fn *ssa.Function, v ssa.Value, depth int, out map[string]bool, seen map[ssa.Value]bool) {
	if seen[v] || depth < 0 {
		return
	}
	seen[v] = true
	switch v := v.(type) {
	case *ssa.Phi:
		for _, e := range v.Edges {
			sa.containerFields(fn, e, depth, out, seen)
		}
	case *ssa.Extract:
		if c, ok := v.Tuple.(*ssa.Call); ok && c.Common().StaticCallee() == sa.alloc {
			sa.containerFields(fn, c.Common().Args[0], depth, out, seen)
			return
		}
		out["?"] = true
	case *ssa.Slice:
		sa.containerFields(fn, v.X, depth, out, seen)
	case *ssa.Call:
		// a helper returning the (grown) slice it was given
		if cal := v.Common().StaticCallee(); cal != nil && inModule(cal) {
			for _, a := range v.Common().Args {
				if isKVSlice(a.Type()) {
					sa.containerFields(fn, a, depth, out, seen)
					return
				}
			}
		}
		out["?"] = true
	case *ssa.Parameter:
		idx := -1
		for i, prm := range fn.Params {
			if prm == v {
				idx = i
			}
		}
		found := false
		for _, caller := range sa.p.funcsIn("") {
			for _, b := range caller.Blocks {
				for _, in := range b.Instrs {
					c, ok := in.(ssa.CallInstruction)
					if !ok || c.Common().StaticCallee() != fn || idx >= len(c.Common().Args) {
						continue
					}
					found = true
					sa.containerFields(caller, c.Common().Args[idx], depth-1, out, map[ssa.Value]bool{})
				}
			}
		}
		if !found {
			out["?"] = true
		}
	default:
		if _, fv := loadedField(v); fv != nil {
			out[fv.Name()] = true
			return
		}
		out["?"] = true
	}
}

func runSlotFill(p *Prog, r *Report, prop string) {
	alloc := p.Func("allocArg")
	release := p.Func("releaseArg")
	if alloc == nil || release == nil {
		r.Undecided("R-slot", "allocArg / releaseArg", "anchor not found")
		return
	}
	sa := &slotAnalysis{p: p, memo: map[string]*slotFiller{}, alloc: alloc}
	sites := 0
	for _, fn := range p.funcsIn("") {
		if fn == alloc {
			continue
		}
		var calls []*ssa.Call
		for _, b := range fn.Blocks {
			for _, in := range b.Instrs {
				if c, ok := in.(*ssa.Call); ok && c.Common().StaticCallee() == alloc {
					calls = append(calls, c)
				}
			}
		}
		if len(calls) == 0 {
			continue
		}
		// which property owns the site: the Args container (C28) or header storage (C29)
		fields := map[string]bool{}
		for _, c := range calls {
			sa.containerFields(fn, c.Common().Args[0], 3, fields, map[ssa.Value]bool{})
		}
		var fl []string
		for f := range fields {
			fl = append(fl, f)
		}
		sort.Strings(fl)
		owner := "C29"
		if fields["args"] || fields["?"] {
			owner = "C28"
		}
		if owner != prop && !(prop == "C29" && (fields["h"] || fields["cookies"] || fields["trailer"])) {
			continue
		}
		// readers of cookie lists never consult the flag (only Args.AppendBytes and copyArgs do, and copyArgs copies it with the value)
		need := slotKey | slotValue
		if fields["args"] || fields["?"] {
			need |= slotFlag
		}
		var isSlot func(v ssa.Value) bool
		isSlot = func(v ssa.Value) bool {
			return slotRoot(v, alloc, map[ssa.Value]bool{})
		}
		sites += len(calls)
		type bad struct {
			pos  token.Pos
			miss uint64
			wit  []string
			what string
		}
		var first *bad
		checked := 0
		fillerOf := map[ssa.Value]uint64{} // call result -> bits the call contributed
		var fillNotes []string
		check := func(x *Explorer, st *State, pos token.Pos, what string) {
			if !st.Has(slotOpen) {
				return
			}
			checked++
			if miss := need &^ st.Ev; miss != 0 && first == nil {
				first = &bad{pos, miss, x.Path(st), what}
			}
		}
		x := NewExplorer(p, fn, Hooks{
			Instr: func(x *Explorer, st *State, in ssa.Instruction) {
				switch in := in.(type) {
				case *ssa.Store:
					st.Ev |= slotTarget(in.Addr, isSlot, nil)
				case ssa.CallInstruction:
					callee := in.Common().StaticCallee()
					switch {
					case callee == alloc:
						check(x, st, in.Pos(), "the next slot is taken")
						st.Ev &^= slotKey | slotValue | slotFlag
						st.Set(slotOpen)
					case callee == release:
						st.Clear(slotOpen)
					case callee != nil && inModule(callee):
						if b2 := slotArgBinding(in, isSlot, nil); len(b2) > 0 {
							s := sa.filler(callee, b2, 3)
							st.Ev |= s.bits
							if v, ok := in.(ssa.Value); ok {
								if _, seen := fillerOf[v]; !seen {
									fillNotes = append(fillNotes, fmt.Sprintf("%s stores {%s} on each of its %d producing returns", funcName(callee), slotBitsString(s.bits), s.n))
									if s.wit != nil && s.bits&need != need {
										fillNotes = append(fillNotes, "a producing return of "+funcName(callee)+" at "+p.Pos(s.pos)+" misses a field: "+strings.Join(s.wit, " > "))
									}
								}
								fillerOf[v] = s.bits
							}
						}
					}
				}
			},
			Branch: func(x *Explorer, st *State, cond ssa.Value, taken bool, from *ssa.BasicBlock) {
				// the filler said it produced nothing: what it stored does not count
				if bits, ok := fillerOf[cond]; ok && !taken {
					st.Ev &^= bits
				}
			},
			Exit: func(x *Explorer, st *State, ret *ssa.Return, pan *ssa.Panic) {
				if ret != nil {
					check(x, st, ret.Pos(), "the function returns with the slot kept")
				}
			},
		})
		x.Filter = noIntFilter
		x.Run(nil)
		construct := fmt.Sprintf("%s: a slot obtained from allocArg (container %s) has {%s} stored before it is kept", funcName(fn), strings.Join(fl, "/"), slotBitsString(need))
		if x.Aborted || checked == 0 {
			r.Undecided("R-slot", construct, "exploration gave no verdict (aborted or no keep point reached)")
			continue
		}
		detail := fmt.Sprintf("%d keep points explored", checked)
		var wit []string
		pos := p.Pos(fn.Pos())
		if first != nil {
			detail = fmt.Sprintf("when %s, field(s) {%s} of the recycled entry still hold what the previous occupant left there: readers (Peek, All, AppendBytes) see stale data for the new key", first.what, slotBitsString(first.miss))
			wit = append(first.wit, fillNotes...)
			pos = p.Pos(first.pos)
		}
		r.Check("R-slot", construct, first == nil, pos, detail, wit...)
	}
	_ = types.Typ
	if prop == "C28" {
		r.Floor("R-slot", "allocArg call sites feeding Args", sites, 3)
	} else {
		r.Floor("R-slot", "allocArg call sites feeding header storage", sites, 4)
	}
}

// slotRoot: v is (a merge of) the entry pointer returned by allocArg.
func slotRoot(v ssa.Value, alloc *ssa.Function, seen map[ssa.Value]bool) bool {
	if seen[v] {
		return true
	}
	seen[v] = true
	switch v := v.(type) {
	case *ssa.Extract:
		c, ok := v.Tuple.(*ssa.Call)
		return ok && c.Common().StaticCallee() == alloc && v.Index == 1
	case *ssa.Phi:
		if typeNameOf(v) != "argsKV" {
			return false
		}
		any := false
		for _, e := range v.Edges {
			if isNilConst(e) {
				continue
			}
			if !slotRoot(e, alloc, seen) {
				return false
			}
			any = true
		}
		return any
	}
	return false
}
