package main

// C23 - the FS handler stays inside its root.

import (
	"fmt"
	"go/constant"
	"go/token"
	"go/types"
	"sort"
	"strings"

	"golang.org/x/tools/go/ssa"
)

func init() {
	register(&propDef{
		id:      "C23",
		explain: "Structural necessary conditions of 'the FS handler never serves a file outside its root': (R1) in the FS request handler every use of the request path to look up, build or open a file happens on paths where the NUL-byte test has passed; (R2) and, when the path came from a PathRewrite function (the rewriter field is not nil), where the '..'-segment test has passed as well - rewritten paths bypass URI normalisation; (R3) every file-system open/create/remove site of the package is reachable only from the request handler (or from the documented unguarded ServeFile family) - there is no other way in; the handler's configuration fields are assigned only during initialisation; (R4) the path normaliser behind RequestCtx.Path() applies every dot-related test ('.' presence, '/./', '/../') to the percent-decoded buffer, never to the raw encoded input, so encoded dot segments are removed like literal ones. (R5) the one byte pathToFilePath drops from the validated path is dropped only under its trailing-slash flag, and every caller computes that flag from comparing a path byte with '/' and nothing else - a last segment '..' followed by any other byte passes validation as an ordinary name. (R6) in pathToFilePath the request path is appended after the root only on paths that appended '/' last, or found the path starting with '/', or empty, or the root empty - the root immediately followed by a name byte names a sibling of the root. Not decided: that the normaliser equals RFC 3986 remove_dot_segments (C26), symlinks, case-insensitive file systems.",
		run:     runC23,
	})
}

// flagComparisons collects the comparisons that decide a boolean value: the
// value itself, the operands it merges, and the branch conditions inside the
// region that selects between the merged operands.
func flagComparisons(v ssa.Value, out map[*ssa.BinOp]bool, seen map[ssa.Value]bool, depth int) {
	if v == nil || seen[v] || depth < 0 {
		return
	}
	seen[v] = true
	switch v := v.(type) {
	case *ssa.BinOp:
		switch v.Op {
		case token.EQL, token.NEQ, token.LSS, token.GTR, token.LEQ, token.GEQ:
			out[v] = true
		default:
			flagComparisons(v.X, out, seen, depth-1)
			flagComparisons(v.Y, out, seen, depth-1)
		}
	case *ssa.UnOp:
		if v.Op == token.NOT {
			flagComparisons(v.X, out, seen, depth-1)
		}
	case *ssa.Phi:
		for _, e := range v.Edges {
			flagComparisons(e, out, seen, depth-1)
		}
		d := v.Block().Idom()
		if d == nil {
			return
		}
		for _, b := range v.Block().Parent().Blocks {
			if (b == d || d.Dominates(b)) && !v.Block().Dominates(b) {
				if iff, ok := b.Instrs[len(b.Instrs)-1].(*ssa.If); ok {
					flagComparisons(iff.Cond, out, seen, depth-1)
				}
			}
		}
	}
}

// trimmedByteIsSlash (R5): pathToFilePath drops the last byte of the path when
// told so, after all validation has been done on the untrimmed path. That is
// only harmless when the dropped byte is a separator: "/.." + "/" was
// normalised away, "/.." + any other byte was validated as an ordinary
// three-byte name and turns into ".." by the trim.
func trimmedByteIsSlash(p *Prog, r *Report) {
	ptf := p.Func("(*fsHandler).pathToFilePath")
	if ptf == nil || len(ptf.Params) < 3 {
		r.Undecided("R5", "fsHandler.pathToFilePath", "anchor not found")
		return
	}
	flag := ptf.Params[2]
	// (a) the only shortening of the path inside is the one asked for by the flag
	n := 0
	for _, b := range ptf.Blocks {
		for _, in := range b.Instrs {
			sl, ok := in.(*ssa.Slice)
			if !ok || sl.High == nil || rootOf(sl.X) != ssa.Value(ptf.Params[1]) {
				continue
			}
			if _, isC := sl.High.(*ssa.Const); isC {
				continue
			}
			n++
			guarded := false
			for _, g := range guardsOf(b) {
				if g.Cond == ssa.Value(flag) && g.Pol {
					guarded = true
				}
			}
			r.Check("R5", "fsHandler.pathToFilePath: the request path is shortened only when the caller said it ends in a slash", guarded, p.Pos(sl.Pos()),
				"bytes are dropped from the already validated path without the trailing-slash flag")
		}
	}
	r.Floor("R5", "places where pathToFilePath shortens the path", n, 1)
	// (b) what callers pass as the flag is decided by comparing a path byte with '/' only
	calls := 0
	for _, fn := range p.funcsIn("") {
		for _, b := range fn.Blocks {
			for _, in := range b.Instrs {
				c, ok := in.(*ssa.Call)
				if !ok || c.Call.StaticCallee() != ptf || len(c.Call.Args) < 3 {
					continue
				}
				calls++
				arg := c.Call.Args[2]
				if k, isC := arg.(*ssa.Const); isC && k.Value != nil && k.Value.ExactString() == "false" {
					r.Check("R5", fmt.Sprintf("%s: the trailing-slash flag given to pathToFilePath is true only when the last byte of the path equals '/'", funcName(fn)), true, p.Pos(c.Pos()), "constant false")
					continue
				}
				cmps := map[*ssa.BinOp]bool{}
				flagComparisons(arg, cmps, map[ssa.Value]bool{}, 8)
				slash, other := 0, []string{}
				// bytes.HasSuffix(path, "/") says the same as the byte comparison
				if cv, isCall := arg.(*ssa.Call); isCall {
					if f := cv.Call.StaticCallee(); f != nil && f.Pkg != nil && f.Pkg.Pkg.Path() == "bytes" && f.Name() == "HasSuffix" && len(cv.Call.Args) == 2 {
						if g := globalOf(cv.Call.Args[1]); g != "" && globalBytesValueByName(p, g) == "/" {
							slash++
						} else {
							other = append(other, "suffix test against something other than \"/\" at "+p.Pos(cv.Pos()))
						}
					}
				}
				for cmp := range cmps {
					for _, pair := range [][2]ssa.Value{{cmp.X, cmp.Y}, {cmp.Y, cmp.X}} {
						k, isC := constInt(pair[1])
						if !isC {
							continue
						}
						if bt, isB := pair[0].Type().Underlying().(*types.Basic); !isB || bt.Kind() != types.Uint8 {
							continue
						}
						if cmp.Op == token.EQL && k == '/' {
							slash++
						} else {
							other = append(other, fmt.Sprintf("%s %s %d at %s", "path byte", cmp.Op, k, p.Pos(cmp.Pos())))
						}
					}
				}
				sort.Strings(other)
				r.Check("R5", fmt.Sprintf("%s: the trailing-slash flag given to pathToFilePath is true only when the last byte of the path equals '/'", funcName(fn)), slash > 0 && len(other) == 0, p.Pos(c.Pos()),
					"the flag also depends on another byte test ("+strings.Join(other, "; ")+"): pathToFilePath drops that byte after the NUL and '..' checks ran on the untrimmed path, so a last segment '..' followed by that byte was validated as an ordinary name and becomes '..' - the parent of the root is opened")
			}
		}
	}
	r.Floor("R5", "calls of pathToFilePath", calls, 1)
}

func runC23(p *Prog, r *Report) {
	trimmedByteIsSlash(p, r)
	separatorBeforeRequestPath(p, r)
	fn := p.Func("(*fsHandler).handleRequest")
	dd := p.Func("hasDotDotPathSegment")
	if fn == nil || dd == nil {
		r.Undecided("R1", "anchors fsHandler.handleRequest / hasDotDotPathSegment", "not found")
		return
	}
	// the request path value: phi of pathRewrite(ctx) and ctx.Path()
	var rewriteLoad ssa.Value
	for _, b := range fn.Blocks {
		for _, in := range b.Instrs {
			if u, ok := in.(*ssa.UnOp); ok {
				if _, fv := loadedField(u); fv != nil && fv.Name() == "pathRewrite" && rewriteLoad == nil {
					rewriteLoad = u
				}
			}
		}
	}
	isUse := func(c ssa.CallInstruction) string {
		if f := c.Common().StaticCallee(); f != nil {
			switch f.Name() {
			case "pathToFilePath", "openFSFile", "openIndexFile", "filePathToCompressed":
				return f.Name()
			}
		}
		if isInvoke(c, "GetFileFromCache") || isInvoke(c, "SetFileToCache") {
			return c.Common().Method.Name()
		}
		return ""
	}
	const (
		bNul uint64 = 1 << iota
		bDotDot
	)
	type tal struct {
		n, bad int
		wit    []string
		pos    string
	}
	obs := map[string]*tal{}
	note := func(x *Explorer, st *State, key string, ok bool, in ssa.Instruction) {
		t := obs[key]
		if t == nil {
			t = &tal{}
			obs[key] = t
		}
		t.n++
		if !ok {
			t.bad++
			if t.wit == nil {
				t.wit = x.Path(st)
				t.pos = p.Pos(in.Pos())
			}
		}
	}
	x := NewExplorer(p, fn, Hooks{
		Branch: func(x *Explorer, st *State, cond ssa.Value, taken bool, from *ssa.BasicBlock) {
			pos, v := stripNot(cond)
			tk := taken == pos
			// "bytes.IndexByte(path, 0) >= 0" false  => no NUL
			// the edge establishes "no NUL byte" iff the comparison outcome, together with the post-condition of
			// IndexByte (-1 or a position), entails that the result is -1 - decided in the zone domain, so that
			// 'n >= 0', 'n != -1', 'n < 0' all count and a weakened 'n > 0' does not
			if bo, ok := v.(*ssa.BinOp); ok {
				for _, o := range []ssa.Value{bo.X, bo.Y} {
					if c, isCall := o.(*ssa.Call); isCall && stdCall(c, "bytes", "IndexByte") {
						if k, okc := constInt(c.Call.Args[1]); okc && k == 0 {
							z := newZone()
							n := z.node(c)
							z.add(0, 0, n, 0, 1)
							z.assumeCmp(bo.Op, bo.X, bo.Y, tk)
							if !z.infeasible() && z.entails(n, 0, 0, 0, -1) {
								st.Set(bNul)
							}
						}
					}
				}
			}
			if c, ok := v.(*ssa.Call); ok && isCallTo(c, dd) && !tk {
				st.Set(bDotDot)
			}
		},
		Instr: func(x *Explorer, st *State, in ssa.Instruction) {
			c, ok := in.(ssa.CallInstruction)
			if !ok {
				return
			}
			u := isUse(c)
			if u == "" {
				return
			}
			note(x, st, "the path reaches "+u+" only after the NUL-byte test", st.Has(bNul), in)
			rew := Unknown
			if rewriteLoad != nil {
				rew = x.Eval(st, rewriteLoad)
			}
			note(x, st, "a rewritten path reaches "+u+" only after the '..'-segment test", st.Has(bDotDot) || rew == False, in)
		},
	})
	x.Filter = noIntFilter
	if rewriteLoad != nil {
		x.Track(rewriteLoad)
	}
	x.Run(nil)
	for _, k := range sortedKeys(obs) {
		t := obs[k]
		rule := "R1"
		if strings.Contains(k, "rewritten") {
			rule = "R2"
		}
		r.Check(rule, "fsHandler.handleRequest: "+k, t.bad == 0, t.pos, fmt.Sprintf("%d of %d explored arrivals violate it: the file system is consulted with an unchecked path", t.bad, t.n), t.wit...)
	}
	r.Floor("R1", "path use obligations in handleRequest", len(obs), 6)
	if rewriteLoad == nil {
		r.Undecided("R2", "fsHandler.pathRewrite", "no load of the rewriter field in handleRequest")
	}

	// ---- R3: who may open ----
	isOpenSite := func(c ssa.CallInstruction) bool {
		if isInvoke(c, "Open") && strings.HasSuffix(c.Common().Value.Type().String(), "fs.FS") {
			return true
		}
		f := c.Common().StaticCallee()
		if f == nil {
			return false
		}
		path := ""
		if f.Pkg != nil {
			path = f.Pkg.Pkg.Path()
		}
		if path == "os" {
			switch f.Name() {
			case "Open", "OpenFile", "Create", "MkdirAll", "Remove", "Rename", "ReadDir", "Stat":
				return true
			}
		}
		return false
	}
	reach := p.reachableFuncs([]*ssa.Function{fn}, 8)
	nopen := 0
	for _, f := range p.funcsIn("") {
		pos := p.Fset.Position(f.Pos())
		if !strings.HasSuffix(pos.Filename, "/fs.go") {
			continue
		}
		allCalls(f, func(b *ssa.BasicBlock, c ssa.CallInstruction) {
			if !isOpenSite(c) {
				return
			}
			nopen++
			_, ok := reach[f]
			why := ""
			if !ok {
				// the osFS adapter is the file system implementation the handler calls through the fs.FS interface
				if rt := recvTypeName(f); rt == "osFS" || rt == "zipFS" {
					ok = true
					why = " (fs.FS implementation used through the interface)"
				}
				if isExportedAPI(f) {
					// explicit-path API (ServeFile family, FileLastModified): the application names the file, no request path is involved
					ok = true
					why = " (exported explicit-path API: the caller names the file)"
				}
			}
			r.Check("R3", fmt.Sprintf("file-system access in %s is only reachable from the request handler%s", funcName(f), why), ok, p.Pos(c.Pos()),
				"a function that opens/creates/removes files is not reachable from fsHandler.handleRequest: it is another way into the file system that the handler's path checks do not cover")
		})
	}
	r.Floor("R3", "file-system access sites in fs.go", nopen, 5)
	// configuration fields of the handler are written only while it is built
	{
		bad := map[string]bool{}
		n := 0
		for _, f := range p.funcsIn("") {
			for _, b := range f.Blocks {
				for _, in := range b.Instrs {
					st, ok := in.(*ssa.Store)
					if !ok {
						continue
					}
					base, fv := fieldOfAddr(st.Addr)
					if fv == nil || typeNameOf(base) != "fsHandler" {
						continue
					}
					switch fv.Name() {
					case "root", "pathRewrite", "filesystem", "indexNames", "compressRoot":
						n++
						if _, fresh := base.(*ssa.Alloc); !fresh {
							// stores through a pointer to a handler under construction in the same function are fine as well
							if !strings.Contains(funcName(f), "initRequestHandler") && !strings.Contains(funcName(f), "newFSHandler") {
								bad[funcName(f)+"."+fv.Name()] = true
							}
						}
					}
				}
			}
		}
		r.Check("R3", "fsHandler root / rewriter / filesystem are assigned only while the handler is built", len(bad) == 0 && n > 0, p.Pos(fn.Pos()), "assigned later in: "+joinSorted(bad))
	}

	// ---- R4: the normaliser tests the decoded bytes ----
	if np := p.Func("normalizePath"); np != nil {
		var src *ssa.Parameter
		if len(np.Params) >= 2 {
			src = np.Params[1]
		}
		n := 0
		allCalls(np, func(b *ssa.BasicBlock, c ssa.CallInstruction) {
			f := c.Common().StaticCallee()
			if f == nil || f.Pkg == nil || f.Pkg.Pkg.Path() != "bytes" || !(f.Name() == "IndexByte" || f.Name() == "Index" || f.Name() == "HasSuffix" || f.Name() == "LastIndexByte") {
				return
			}
			// is the needle dot-related?
			dot := false
			if k, ok := constInt(c.Common().Args[1]); ok && k == '.' {
				dot = true
			}
			if g := globalOf(c.Common().Args[1]); strings.Contains(g, "Dot") {
				dot = true
			}
			if !dot {
				return
			}
			n++
			hay := c.Common().Args[0]
			raw := false
			v := hay
			for i := 0; i < 6; i++ {
				if v == ssa.Value(src) {
					raw = true
				}
				if s, ok := v.(*ssa.Slice); ok {
					v = s.X
					continue
				}
				break
			}
			r.Check("R4", fmt.Sprintf("normalizePath: the dot test %s(…) is applied to the decoded buffer", f.Name()), !raw, p.Pos(c.Pos()),
				"a dot-related test looks at the raw, still percent-encoded input: '%2e%2e' segments are not seen and survive normalisation, so RequestCtx.Path() can contain '..'")
		})
		r.Floor("R4", "dot-related tests in normalizePath", n, 3)
	} else {
		r.Undecided("R4", "normalizePath", "not found")
	}
}

func globalBytesValueByName(p *Prog, name string) string {
	for _, m := range p.Root().Members {
		if g, ok := m.(*ssa.Global); ok && g.Name() == name {
			return globalBytesValue(p, g)
		}
	}
	return ""
}

// separatorBeforeRequestPath (C23.R6): pathToFilePath joins the root and the request path into the name that is opened.
// Wherever the request path is appended after the root, the byte before it is a separator: the path is appended
// directly only on paths that appended '/' last, or found that the path starts with '/', or that it is empty, or
// that the root is empty. Root+"x" instead of Root+"/x" names a sibling of the root whose name merely starts with
// the root's name (/srv/www2 for /srv/www) - outside the root, without any '..'.
func separatorBeforeRequestPath(p *Prog, r *Report) {
	fn := p.Func("(*fsHandler).pathToFilePath")
	if fn == nil || len(fn.Params) < 2 {
		r.Undecided("R6", "(*fsHandler).pathToFilePath", "not found")
		return
	}
	pathParam := fn.Params[1]
	fromPath := func(v ssa.Value) bool { return derivesFromValue(v, pathParam) }
	// a one-byte array holding '/' that is appended
	isSlashLit := func(v ssa.Value) bool {
		sl, ok := v.(*ssa.Slice)
		if !ok {
			return false
		}
		al, ok := sl.X.(*ssa.Alloc)
		if !ok {
			return false
		}
		for _, ref := range *al.Referrers() {
			if ia, ok := ref.(*ssa.IndexAddr); ok {
				for _, r2 := range *ia.Referrers() {
					if st, ok := r2.(*ssa.Store); ok {
						if k, isK := constInt(st.Val); isK && k == '/' {
							return true
						}
					}
				}
			}
		}
		return false
	}
	isLenOfPath := func(v ssa.Value) bool {
		c, ok := v.(*ssa.Call)
		if !ok {
			return false
		}
		bi, ok := c.Call.Value.(*ssa.Builtin)
		return ok && bi.Name() == "len" && len(c.Call.Args) == 1 && fromPath(c.Call.Args[0])
	}
	isFirstByteSlash := func(bo *ssa.BinOp) bool {
		if bo.Op != token.EQL {
			return false
		}
		k, isK := constInt(bo.Y)
		if !isK || k != '/' {
			return false
		}
		u, ok := bo.X.(*ssa.UnOp)
		if !ok || u.Op != token.MUL {
			return false
		}
		ia, ok := u.X.(*ssa.IndexAddr)
		if !ok || !fromPath(ia.X) {
			return false
		}
		i0, isK0 := constInt(ia.Index)
		return isK0 && i0 == 0
	}
	const (
		bRoot uint64 = 1 << iota // the root was appended and nothing after it
		bSep                      // a '/' was the last thing appended
		bLead                     // the path is known to start with '/'
		bEmpty                    // the path is known to be empty
		bNoRoot                   // the root is known to be empty
	)
	n, bad := 0, 0
	var wit []string
	var pos token.Pos
	x := NewExplorer(p, fn, Hooks{
		Instr: func(x *Explorer, st *State, in ssa.Instruction) {
			c, ok := in.(*ssa.Call)
			if !ok {
				return
			}
			bi, ok := c.Call.Value.(*ssa.Builtin)
			if !ok || bi.Name() != "append" || len(c.Call.Args) != 2 {
				return
			}
			src := c.Call.Args[1]
			switch {
			case isSlashLit(src):
				st.Set(bSep)
				st.Clear(bRoot)
			case fromPath(src):
				// path[1:] after a separator is the same thing; what matters is the byte before
				if st.Has(bRoot) || st.Has(bSep) {
					n++
					ok := st.Has(bSep) || st.Has(bLead) || st.Has(bEmpty) || st.Has(bNoRoot)
					if sl, isSl := src.(*ssa.Slice); isSl && sl.Low != nil && !st.Has(bSep) {
						ok = false // the leading byte was cut off and nothing replaces it
					}
					if !ok {
						bad++
						if wit == nil {
							wit, pos = x.Path(st), in.Pos()
						}
					}
				}
				st.Clear(bRoot | bSep)
			default:
				if _, fv := loadedField(src); fv != nil && fv.Name() == "root" {
					st.Set(bRoot)
					st.Clear(bSep)
				} else if cv, isConv := src.(*ssa.Convert); isConv {
					_ = cv
					st.Set(bRoot) // []byte(root...) of a local copy of the root
					st.Clear(bSep)
				} else {
					st.Set(bRoot)
					st.Clear(bSep)
				}
			}
		},
		Branch: func(x *Explorer, st *State, cond ssa.Value, taken bool, from *ssa.BasicBlock) {
			var learn func(cond ssa.Value, taken bool, d int)
			learn = func(cond ssa.Value, taken bool, d int) {
				pol, v := stripNot(cond)
				truth := taken == pol
				if d > 6 {
					return
				}
				if ph, ok := v.(*ssa.Phi); ok {
					// hasLeadingSlash := len(path) > 0 && path[0] == '/'
					for _, e := range ph.Edges {
						if bo, ok := e.(*ssa.BinOp); ok && isFirstByteSlash(bo) {
							if truth {
								st.Set(bLead)
							} else {
								st.Clear(bLead)
							}
							return
						}
					}
					// a conjunction / disjunction kept in a variable: what this path put into it
					if k, ok := st.ali[x.Canon(ph)]; ok {
						if nv := x.byKey[k]; nv != nil && nv != ssa.Value(ph) {
							if _, isC := nv.(*ssa.Const); !isC {
								learn(nv, truth, d+1)
							}
						}
					}
					return
				}
				bo, ok := v.(*ssa.BinOp)
				if !ok {
					return
				}
				if isFirstByteSlash(bo) {
					if truth {
						st.Set(bLead)
					}
					return
				}
				if isLenOfPath(bo.X) {
					if k, isK := constInt(bo.Y); isK {
						zero := false
						switch bo.Op {
						case token.GTR:
							zero = !truth && k == 0
						case token.GEQ:
							zero = !truth && k == 1
						case token.LSS:
							zero = truth && k == 1
						case token.LEQ:
							zero = truth && k == 0
						case token.EQL:
							zero = truth && k == 0
						case token.NEQ:
							zero = !truth && k == 0
						}
						if zero {
							st.Set(bEmpty)
						}
					}
					return
				}
				// h.root != "" / root == ""
				if cs, ok := bo.Y.(*ssa.Const); ok && cs.Value != nil && cs.Value.Kind() == constant.String && constant.StringVal(cs.Value) == "" {
					if _, fv := loadedField(bo.X); fv != nil && fv.Name() == "root" {
						if (bo.Op == token.EQL) == truth {
							st.Set(bNoRoot)
						} else {
							st.Clear(bNoRoot)
						}
					}
				}
			}
			learn(cond, taken, 0)
		},
	})
	x.AliasPhis = map[*ssa.Phi]bool{}
	for _, b := range fn.Blocks {
		for _, in := range b.Instrs {
			if ph, ok := in.(*ssa.Phi); ok && isBool(ph.Type()) {
				x.AliasPhis[ph] = true
			}
		}
	}
	x.TrackAll = true
	x.MaxStates = 500000
	x.Run(nil)
	if x.Aborted || n == 0 {
		r.Undecided("R6", "pathToFilePath: appends of the request path after the root", "exploration gave no verdict")
		return
	}
	r.Counts["R6 arrivals at an append of the request path after the root"] = n
	r.Check("R6", "pathToFilePath: the request path is appended after the root only behind a separator (or when it starts with one, or is empty, or the root is empty)", bad == 0, p.Pos(pos),
		fmt.Sprintf("%d of %d explored arrivals append the request path right after the root with no '/' in between and without having found the path empty, the root empty, or a leading '/': a one-byte rewritten path \"2\" under root /srv/www opens /srv/www2 - a sibling of the root, outside it", bad, n), wit...)
}
