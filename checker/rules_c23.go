package main

// C23 - the FS handler stays inside its root.

import (
	"fmt"
	"strings"

	"golang.org/x/tools/go/ssa"
)

func init() {
	register(&propDef{
		id:      "C23",
		explain: "Structural necessary conditions of 'the FS handler never serves a file outside its root': (R1) in the FS request handler every use of the request path to look up, build or open a file happens on paths where the NUL-byte test has passed; (R2) and, when the path came from a PathRewrite function (the rewriter field is not nil), where the '..'-segment test has passed as well - rewritten paths bypass URI normalisation; (R3) every file-system open/create/remove site of the package is reachable only from the request handler (or from the documented unguarded ServeFile family) - there is no other way in; the handler's configuration fields are assigned only during initialisation; (R4) the path normaliser behind RequestCtx.Path() applies every dot-related test ('.' presence, '/./', '/../') to the percent-decoded buffer, never to the raw encoded input, so encoded dot segments are removed like literal ones. Not decided: that the normaliser equals RFC 3986 remove_dot_segments (C26), symlinks, case-insensitive file systems.",
		run:     runC23,
	})
}

func runC23(p *Prog, r *Report) {
	fn := p.Func("(*fsHandler).handleRequest")
	dd := p.Func("hasDotDotPathSegment")
	if fn == nil || dd == nil {
		r.Undecided("R1", "anchors fsHandler.handleRequest / hasDotDotPathSegment", "not found")
		return
	}
	// the request path value: phi of pathRewrite(ctx) and ctx.Path()
	var rewriteLoad ssa.Value
	for _, b := range fn.Blocks {
		for _, in := range b.Instrs {
			if u, ok := in.(*ssa.UnOp); ok {
				if _, fv := loadedField(u); fv != nil && fv.Name() == "pathRewrite" && rewriteLoad == nil {
					rewriteLoad = u
				}
			}
		}
	}
	isUse := func(c ssa.CallInstruction) string {
		if f := c.Common().StaticCallee(); f != nil {
			switch f.Name() {
			case "pathToFilePath", "openFSFile", "openIndexFile", "filePathToCompressed":
				return f.Name()
			}
		}
		if isInvoke(c, "GetFileFromCache") || isInvoke(c, "SetFileToCache") {
			return c.Common().Method.Name()
		}
		return ""
	}
	const (
		bNul uint64 = 1 << iota
		bDotDot
	)
	type tal struct {
		n, bad int
		wit    []string
		pos    string
	}
	obs := map[string]*tal{}
	note := func(x *Explorer, st *State, key string, ok bool, in ssa.Instruction) {
		t := obs[key]
		if t == nil {
			t = &tal{}
			obs[key] = t
		}
		t.n++
		if !ok {
			t.bad++
			if t.wit == nil {
				t.wit = x.Path(st)
				t.pos = p.Pos(in.Pos())
			}
		}
	}
	x := NewExplorer(p, fn, Hooks{
		Branch: func(x *Explorer, st *State, cond ssa.Value, taken bool, from *ssa.BasicBlock) {
			pos, v := stripNot(cond)
			tk := taken == pos
			// "bytes.IndexByte(path, 0) >= 0" false  => no NUL
			// the edge establishes "no NUL byte" iff the comparison outcome, together with the post-condition of
			// IndexByte (-1 or a position), entails that the result is -1 - decided in the zone domain, so that
			// 'n >= 0', 'n != -1', 'n < 0' all count and a weakened 'n > 0' does not
			if bo, ok := v.(*ssa.BinOp); ok {
				for _, o := range []ssa.Value{bo.X, bo.Y} {
					if c, isCall := o.(*ssa.Call); isCall && stdCall(c, "bytes", "IndexByte") {
						if k, okc := constInt(c.Call.Args[1]); okc && k == 0 {
							z := newZone()
							n := z.node(c)
							z.add(0, 0, n, 0, 1)
							z.assumeCmp(bo.Op, bo.X, bo.Y, tk)
							if !z.infeasible() && z.entails(n, 0, 0, 0, -1) {
								st.Set(bNul)
							}
						}
					}
				}
			}
			if c, ok := v.(*ssa.Call); ok && isCallTo(c, dd) && !tk {
				st.Set(bDotDot)
			}
		},
		Instr: func(x *Explorer, st *State, in ssa.Instruction) {
			c, ok := in.(ssa.CallInstruction)
			if !ok {
				return
			}
			u := isUse(c)
			if u == "" {
				return
			}
			note(x, st, "the path reaches "+u+" only after the NUL-byte test", st.Has(bNul), in)
			rew := Unknown
			if rewriteLoad != nil {
				rew = x.Eval(st, rewriteLoad)
			}
			note(x, st, "a rewritten path reaches "+u+" only after the '..'-segment test", st.Has(bDotDot) || rew == False, in)
		},
	})
	x.Filter = noIntFilter
	if rewriteLoad != nil {
		x.Track(rewriteLoad)
	}
	x.Run(nil)
	for _, k := range sortedKeys(obs) {
		t := obs[k]
		rule := "R1"
		if strings.Contains(k, "rewritten") {
			rule = "R2"
		}
		r.Check(rule, "fsHandler.handleRequest: "+k, t.bad == 0, t.pos, fmt.Sprintf("%d of %d explored arrivals violate it: the file system is consulted with an unchecked path", t.bad, t.n), t.wit...)
	}
	r.Floor("R1", "path use obligations in handleRequest", len(obs), 6)
	if rewriteLoad == nil {
		r.Undecided("R2", "fsHandler.pathRewrite", "no load of the rewriter field in handleRequest")
	}

	// ---- R3: who may open ----
	isOpenSite := func(c ssa.CallInstruction) bool {
		if isInvoke(c, "Open") && strings.HasSuffix(c.Common().Value.Type().String(), "fs.FS") {
			return true
		}
		f := c.Common().StaticCallee()
		if f == nil {
			return false
		}
		path := ""
		if f.Pkg != nil {
			path = f.Pkg.Pkg.Path()
		}
		if path == "os" {
			switch f.Name() {
			case "Open", "OpenFile", "Create", "MkdirAll", "Remove", "Rename", "ReadDir", "Stat":
				return true
			}
		}
		return false
	}
	reach := p.reachableFuncs([]*ssa.Function{fn}, 8)
	nopen := 0
	for _, f := range p.funcsIn("") {
		pos := p.Fset.Position(f.Pos())
		if !strings.HasSuffix(pos.Filename, "/fs.go") {
			continue
		}
		allCalls(f, func(b *ssa.BasicBlock, c ssa.CallInstruction) {
			if !isOpenSite(c) {
				return
			}
			nopen++
			_, ok := reach[f]
			why := ""
			if !ok {
				// the osFS adapter is the file system implementation the handler calls through the fs.FS interface
				if rt := recvTypeName(f); rt == "osFS" || rt == "zipFS" {
					ok = true
					why = " (fs.FS implementation used through the interface)"
				}
				if isExportedAPI(f) {
					// explicit-path API (ServeFile family, FileLastModified): the application names the file, no request path is involved
					ok = true
					why = " (exported explicit-path API: the caller names the file)"
				}
			}
			r.Check("R3", fmt.Sprintf("file-system access in %s is only reachable from the request handler%s", funcName(f), why), ok, p.Pos(c.Pos()),
				"a function that opens/creates/removes files is not reachable from fsHandler.handleRequest: it is another way into the file system that the handler's path checks do not cover")
		})
	}
	r.Floor("R3", "file-system access sites in fs.go", nopen, 5)
	// configuration fields of the handler are written only while it is built
	{
		bad := map[string]bool{}
		n := 0
		for _, f := range p.funcsIn("") {
			for _, b := range f.Blocks {
				for _, in := range b.Instrs {
					st, ok := in.(*ssa.Store)
					if !ok {
						continue
					}
					base, fv := fieldOfAddr(st.Addr)
					if fv == nil || typeNameOf(base) != "fsHandler" {
						continue
					}
					switch fv.Name() {
					case "root", "pathRewrite", "filesystem", "indexNames", "compressRoot":
						n++
						if _, fresh := base.(*ssa.Alloc); !fresh {
							// stores through a pointer to a handler under construction in the same function are fine as well
							if !strings.Contains(funcName(f), "initRequestHandler") && !strings.Contains(funcName(f), "newFSHandler") {
								bad[funcName(f)+"."+fv.Name()] = true
							}
						}
					}
				}
			}
		}
		r.Check("R3", "fsHandler root / rewriter / filesystem are assigned only while the handler is built", len(bad) == 0 && n > 0, p.Pos(fn.Pos()), "assigned later in: "+joinSorted(bad))
	}

	// ---- R4: the normaliser tests the decoded bytes ----
	if np := p.Func("normalizePath"); np != nil {
		var src *ssa.Parameter
		if len(np.Params) >= 2 {
			src = np.Params[1]
		}
		n := 0
		allCalls(np, func(b *ssa.BasicBlock, c ssa.CallInstruction) {
			f := c.Common().StaticCallee()
			if f == nil || f.Pkg == nil || f.Pkg.Pkg.Path() != "bytes" || !(f.Name() == "IndexByte" || f.Name() == "Index" || f.Name() == "HasSuffix" || f.Name() == "LastIndexByte") {
				return
			}
			// is the needle dot-related?
			dot := false
			if k, ok := constInt(c.Common().Args[1]); ok && k == '.' {
				dot = true
			}
			if g := globalOf(c.Common().Args[1]); strings.Contains(g, "Dot") {
				dot = true
			}
			if !dot {
				return
			}
			n++
			hay := c.Common().Args[0]
			raw := false
			v := hay
			for i := 0; i < 6; i++ {
				if v == ssa.Value(src) {
					raw = true
				}
				if s, ok := v.(*ssa.Slice); ok {
					v = s.X
					continue
				}
				break
			}
			r.Check("R4", fmt.Sprintf("normalizePath: the dot test %s(…) is applied to the decoded buffer", f.Name()), !raw, p.Pos(c.Pos()),
				"a dot-related test looks at the raw, still percent-encoded input: '%2e%2e' segments are not seen and survive normalisation, so RequestCtx.Path() can contain '..'")
		})
		r.Floor("R4", "dot-related tests in normalizePath", n, 3)
	} else {
		r.Undecided("R4", "normalizePath", "not found")
	}
}
