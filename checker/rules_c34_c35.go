package main

// C34 (body streams closed exactly once) and C35 (multipart temp files removed).

import (
	"fmt"
	"strings"

	"golang.org/x/tools/go/ssa"
)

func init() {
	register(&propDef{
		id:      "C34",
		explain: "Structural necessary conditions of 'a body stream handed to a Request/Response is closed exactly once, whatever happens': (R1) each closer (closeBodyStream of Request and Response) clears the bodyStream reference on every path on which it closed the stream, including when Close reports an error - otherwise the next Reset closes it again; (R2) every other store to a bodyStream field either derives from the field's previous value (wrapping / swapping, which transfers ownership) or is dominated by a call of the object's closer (ResetBody / closeBodyStream), or happens in a read path that fills a freshly reset object; (R3) every path through the stream writers of Request and Response reaches the closer; (R4) the shared close helper invokes Close and CloseWithError at most once each. (R-pool) the reader of streamed bodies (requestStream) is pooled: every field of its decoding position is assigned on every path of its release or of its acquire function, so a stream abandoned in the middle of a chunk does not pass its chunk count to the next body. Not decided: byte equality of what was streamed, chunk encoding.",
		run:     runC34,
	})
	register(&propDef{
		id:      "C35",
		explain: "Structural necessary conditions of 'temporary files of a parsed multipart form never outlive the request': (R1) a *multipart.Form produced by ReadForm / readMultipartForm is, on every path from the producing call to a return, stored into Request.multipartForm (where Reset finds it), returned to the caller, explicitly removed with RemoveAll, or the producing call reported an error; (R2) Request.multipartForm is set to nil only after RemoveAll on the non-nil branch; (R3) Request.Reset and RequestCtx.reset clear multipartForm on every path (through the remover), and every serve-loop iteration that ran a handler passes Request.Reset before the next request. Not decided: form content round trip, files moved away by user code.",
		run:     runC35,
	})
}

func isNilStoreTo(in ssa.Instruction, field string) bool {
	st, ok := in.(*ssa.Store)
	if !ok {
		return false
	}
	_, fv := fieldOfAddr(st.Addr)
	return fv != nil && fv.Name() == field && isNilConst(st.Val)
}

func runC34(p *Prog, r *Report) {
	// R-pool: the chunk decoder's position (chunkLeft, chunkedEOF, totalBytesRead, contentLength) lives in a pooled
	// requestStream; a stream released in the middle of a chunk must not hand that position to the next body
	pooledHelperRule(p, r, "requestStream")
	// E8: the once-guard of the compressed stream wrapper. The flag that says "the original stream was closed"
	// is tested and set by two goroutines (the compressing one and whoever discards the wrapper); the test, the
	// store and the Close call form one critical section, so every access to the flag holds the wrapper's lock.
	checkLockset(p, r, "E8", &lockTable{
		guards:      map[string]string{"compressedBodyStream.originalClosed": "compressedBodyStream.originalLock"},
		heldOnEntry: map[string][]string{},
		exempt:      map[string]string{},
	}, nil)
	helper := p.Func("closeBodyStreamReader")
	n := 0
	closers := map[*ssa.Function]bool{}
	for _, typ := range []string{"Request", "Response"} {
		fn := p.Func("(*" + typ + ").closeBodyStream")
		if fn == nil {
			r.Undecided("R1", typ+".closeBodyStream", "not found")
			continue
		}
		closers[fn] = true
		n++
		closed := func(in ssa.Instruction) bool {
			c, ok := in.(ssa.CallInstruction)
			if !ok {
				return false
			}
			return isCallTo(c, helper) || isInvoke(c, "Close") || isInvoke(c, "CloseWithError")
		}
		bad := false
		var wit []string
		for _, b := range fn.Blocks {
			for _, in := range b.Instrs {
				if !closed(in) {
					continue
				}
				hit, path := reachAvoiding(fn, in, isReturn, func(i ssa.Instruction) bool { return isNilStoreTo(i, "bodyStream") }, nil)
				if hit != nil {
					bad = true
					wit = blocksString(p, path)
				}
			}
		}
		r.Check("R1", typ+".closeBodyStream clears the stream reference on every path on which it closed the stream", !bad, p.Pos(fn.Pos()),
			"a return is reachable after the stream was closed without bodyStream being set to nil (for example when Close returned an error): the closed stream stays attached and the next Reset / ResetBody closes it a second time", wit...)
	}
	r.Floor("R1", "closers", n, 2)
	// R2: other stores
	resetBody := map[string]*ssa.Function{"Request": p.Func("(*Request).ResetBody"), "Response": p.Func("(*Response).ResetBody")}
	nst := 0
	for _, fn := range p.SrcFuncs() {
		if closers[fn] {
			continue
		}
		for _, b := range fn.Blocks {
			for _, in := range b.Instrs {
				st, ok := in.(*ssa.Store)
				if !ok {
					continue
				}
				base, fv := fieldOfAddr(st.Addr)
				if fv == nil || fv.Name() != "bodyStream" {
					continue
				}
				owner := typeNameOf(base)
				if owner != "Request" && owner != "Response" {
					continue
				}
				nst++
				kind, ok2 := "", false
				switch {
				case derivesFromFieldLoad(st.Val, "bodyStream"):
					kind, ok2 = "wraps or swaps the previous stream (ownership moves to the new value)", true
				case isCallResultNamed(st.Val, "acquireRequestStream") || isCallResultNamed(st.Val, "NewReader"):
					kind, ok2 = "read path filling a reset object with a connection-backed / in-memory stream", true
				default:
					// dominated by the closer on the same object
					for _, bb := range fn.Blocks {
						for _, i2 := range bb.Instrs {
							c, isC := i2.(ssa.CallInstruction)
							if !isC {
								continue
							}
							f := c.Common().StaticCallee()
							if f == nil {
								continue
							}
							if (f == resetBody[owner] || closers[f] || f.Name() == "Reset" && recvTypeName(f) == owner) && dominatesInstr(i2, st) {
								kind, ok2 = "dominated by "+funcName(f), true
							}
						}
					}
					if !ok2 && isNilConst(st.Val) {
						// a bare drop: must follow a release of the stream (serve loop) - checked by C02.R2; accept only there
						if fnm := funcName(fn); strings.Contains(fnm, "serveConn") {
							kind, ok2 = "serve loop drop after releaseRequestStream (C02.R2)", true
						}
					}
				}
				r.Check("R2", fmt.Sprintf("store to %s.bodyStream in %s: %s", owner, funcName(fn), kind), ok2, p.Pos(st.Pos()),
					"the previous stream (if any) is overwritten without having been closed: it is never closed, or a caller that still holds it closes it later while the new one is dropped")
			}
		}
	}
	r.Floor("R2", "stores to bodyStream outside the closers", nst, 12)
	// R3: writers reach the closer
	for _, spec := range []string{"(*Request).writeBodyStream", "(*Response).writeBodyStream"} {
		fn := p.Func(spec)
		if fn == nil {
			r.Undecided("R3", spec, "not found")
			continue
		}
		var cl []*ssa.Function
		for f := range closers {
			cl = append(cl, f)
		}
		hit, path := reachAvoiding(fn, nil, isReturn, callTo(cl...), nil)
		r.Check("R3", funcName(fn)+" reaches the closer on every path", hit == nil, p.Pos(fn.Pos()), "a return is reachable without closeBodyStream: the stream stays open after the message was written", blocksString(p, path)...)
	}
	// R4: helper invokes each close method at most once (no loop, one site each)
	if helper != nil {
		cnt := map[string]int{}
		inLoopAny := false
		allCalls(helper, func(b *ssa.BasicBlock, c ssa.CallInstruction) {
			if isInvoke(c, "Close") || isInvoke(c, "CloseWithError") {
				cnt[c.Common().Method.Name()]++
				if loopHeaderOf(b) != nil {
					inLoopAny = true
				}
			}
		})
		r.Check("R4", "closeBodyStreamReader invokes Close and CloseWithError at most once each", cnt["Close"] == 1 && cnt["CloseWithError"] == 1 && !inLoopAny, p.Pos(helper.Pos()), fmt.Sprintf("call sites: %v, inside a loop: %v", cnt, inLoopAny))
	} else {
		r.Undecided("R4", "closeBodyStreamReader", "not found")
	}
}

func derivesFromFieldLoad(v ssa.Value, field string) bool {
	seen := map[ssa.Value]bool{}
	var walk func(v ssa.Value, d int) bool
	walk = func(v ssa.Value, d int) bool {
		if v == nil || seen[v] || d > 8 {
			return false
		}
		seen[v] = true
		if _, fv := loadedField(v); fv != nil && fv.Name() == field {
			return true
		}
		switch w := v.(type) {
		case *ssa.Call:
			for _, a := range w.Call.Args {
				if walk(a, d+1) {
					return true
				}
			}
		case *ssa.MakeInterface:
			return walk(w.X, d+1)
		case *ssa.ChangeInterface:
			return walk(w.X, d+1)
		case *ssa.Phi:
			for _, e := range w.Edges {
				if walk(e, d+1) {
					return true
				}
			}
		case *ssa.MakeClosure:
			for _, b := range w.Bindings {
				if walk(b, d+1) {
					return true
				}
			}
		case *ssa.UnOp:
			// a local that holds the old stream (rbs := resp.bodyStream)
			if al, ok := w.X.(*ssa.Alloc); ok {
				for _, ref := range *al.Referrers() {
					if st, ok := ref.(*ssa.Store); ok && st.Addr == ssa.Value(al) && walk(st.Val, d+1) {
						return true
					}
				}
			}
		case *ssa.Alloc:
			for _, ref := range *w.Referrers() {
				if st, ok := ref.(*ssa.Store); ok && st.Addr == ssa.Value(w) && walk(st.Val, d+1) {
					return true
				}
			}
		}
		return false
	}
	return walk(v, 0)
}

func isCallResultNamed(v ssa.Value, name string) bool {
	v = stripMakeIface(v)
	c, ok := v.(*ssa.Call)
	if !ok {
		return false
	}
	f := c.Call.StaticCallee()
	return f != nil && f.Name() == name
}

func runC35(p *Prog, r *Report) {
	// R1: producers of *multipart.Form
	isFormProducer := func(c *ssa.Call) bool {
		f := c.Call.StaticCallee()
		if f == nil {
			return false
		}
		res := f.Signature.Results()
		return res.Len() == 2 && strings.HasSuffix(res.At(0).Type().String(), "multipart.Form") && (f.Name() == "ReadForm" || f.Name() == "readMultipartForm")
	}
	nprod := 0
	for _, fn := range p.funcsIn("") {
		for _, b := range fn.Blocks {
			for _, in := range b.Instrs {
				pc, ok := in.(*ssa.Call)
				if !ok || !isFormProducer(pc) {
					continue
				}
				nprod++
				var form, perr ssa.Value
				for _, ref := range *pc.Referrers() {
					if ex, ok := ref.(*ssa.Extract); ok {
						if ex.Index == 0 {
							form = ex
						} else {
							perr = ex
						}
					}
				}
				if form == nil {
					r.Check("R1", funcName(fn)+": the form produced by "+calleeShort(pc.Call.StaticCallee())+" is kept", false, p.Pos(pc.Pos()), "the produced form is discarded")
					continue
				}
				const (
					bProduced uint64 = 1 << iota
					bKept
				)
				nret, bad := 0, 0
				var wit []string
				x := NewExplorer(p, fn, Hooks{
					Instr: func(x *Explorer, st *State, i2 ssa.Instruction) {
						switch w := i2.(type) {
						case *ssa.Call:
							if w == pc {
								st.Set(bProduced)
								st.Clear(bKept)
							}
							if w.Call.IsInvoke() || w.Call.StaticCallee() != nil {
								if f := w.Call.StaticCallee(); f != nil && f.Name() == "RemoveAll" && len(w.Call.Args) > 0 && sameVar(w.Call.Args[0], form) {
									st.Set(bKept)
								}
								// RemoveMultipartFormFiles after the form was stored in the field
								if f := w.Call.StaticCallee(); f != nil && f.Name() == "RemoveMultipartFormFiles" {
									st.Set(bKept)
								}
							}
						case *ssa.Store:
							if _, fv := fieldOfAddr(w.Addr); fv != nil && fv.Name() == "multipartForm" && sameVar(w.Val, form) {
								st.Set(bKept)
							}
						}
					},
					Exit: func(x *Explorer, st *State, ret *ssa.Return, pan *ssa.Panic) {
						if ret == nil || !st.Has(bProduced) {
							return
						}
						nret++
						ok := st.Has(bKept)
						for _, rv := range returnResults(ret) {
							if sameVar(rv, form) {
								ok = true
							}
						}
						if perr != nil && x.Eval(st, perr) == True {
							ok = true // the producer failed: it hands back no form
						}
						if !ok {
							bad++
							if wit == nil {
								wit = x.Path(st)
							}
						}
					},
				})
				x.Filter = noIntFilter
				if perr != nil {
					x.Track(perr)
				}
				x.Run(nil)
				r.Check("R1", fmt.Sprintf("%s: the form produced by %s is stored in the request, returned, or removed on every path", funcName(fn), calleeShort(pc.Call.StaticCallee())), bad == 0 && nret > 0, p.Pos(pc.Pos()),
					fmt.Sprintf("%d of %d explored returns after a successful parse drop the form: its temporary files can no longer be found by RemoveMultipartFormFiles / Reset and stay on disk", bad, nret), wit...)
			}
		}
	}
	r.Floor("R1", "form producers", nprod, 2)
	// R2: nil stores to multipartForm follow RemoveAll on the non-nil branch
	nnil := 0
	for _, fn := range p.funcsIn("") {
		for _, b := range fn.Blocks {
			for _, in := range b.Instrs {
				if !isNilStoreTo(in, "multipartForm") {
					continue
				}
				nnil++
				ok := false
				for _, bb := range fn.Blocks {
					for _, i2 := range bb.Instrs {
						if c, isC := i2.(ssa.CallInstruction); isC {
							if f := c.Common().StaticCallee(); f != nil && f.Name() == "RemoveAll" && dominatesInstr(i2, in) {
								ok = true
							}
						}
					}
				}
				r.Check("R2", funcName(fn)+": multipartForm is dropped only after RemoveAll", ok, p.Pos(in.Pos()), "the form reference is set to nil without its temporary files having been removed")
			}
		}
	}
	r.Floor("R2", "nil stores to multipartForm", nnil, 1)
	// R3: reset coverage for the form field, and the serve loop passes Reset
	for _, rp := range []resetPair{{"Request", "Reset", 0}, {"RequestCtx", "reset", 0}} {
		fn := p.Func("(*" + rp.typ + ")." + rp.method)
		if fn == nil {
			r.Undecided("R3", rp.typ+"."+rp.method, "not found")
			continue
		}
		w := fieldsWritten(p, fn, 0, 5)
		fp := "multipartForm"
		if rp.typ == "RequestCtx" {
			fp = "Request.multipartForm"
		}
		r.Check("R3", rp.typ+"."+rp.method+" clears multipartForm on every path", coveredBy(w, fp), p.Pos(fn.Pos()), "a path through the reset method leaves the parsed form (and its temporary files) attached to the recycled object")
	}
	p.serveLoop("C35").report(r, "C35")
}
