package main

// C34 (body streams closed exactly once) and C35 (multipart temp files removed).

import (
	"fmt"
	"go/token"
	"sort"
	"strings"

	"golang.org/x/tools/go/ssa"
)

func init() {
	register(&propDef{
		id:      "C34",
		explain: "Structural necessary conditions of 'a body stream handed to a Request/Response is closed exactly once, whatever happens': (R1) each closer (closeBodyStream of Request and Response) clears the bodyStream reference on every path on which it closed the stream, including when Close reports an error - otherwise the next Reset closes it again; (R2) every other store to a bodyStream field either derives from the field's previous value (wrapping / swapping, which transfers ownership) or is dominated by a call of the object's closer (ResetBody / closeBodyStream), or happens in a read path that fills a freshly reset object; (R3) every path through the stream writers of Request and Response reaches the closer; (R4) the shared close helper invokes Close and CloseWithError at most once each. (R1, shared with C03) the writer of a fixed-length body stream hands every byte to the connection through a bound derived from the remaining declared size, whatever the dynamic type of the stream; (R-pool) the reader of streamed bodies (requestStream) is pooled: every field of its decoding position is assigned on every path of its release or of its acquire function, so a stream abandoned in the middle of a chunk does not pass its chunk count to the next body. Not decided: byte equality of what was streamed, chunk encoding.",
		run:     runC34,
	})
	register(&propDef{
		id:      "C35",
		explain: "Structural necessary conditions of 'temporary files of a parsed multipart form never outlive the request': (R1) a *multipart.Form produced by ReadForm / readMultipartForm is, on every path from the producing call to a return, stored into Request.multipartForm (where Reset finds it), returned to the caller, explicitly removed with RemoveAll, or the producing call reported an error; (R2) Request.multipartForm is set to nil only after RemoveAll on the non-nil branch; (R3) Request.Reset and RequestCtx.reset clear multipartForm on every path (through the remover), and every serve-loop iteration that ran a handler passes Request.Reset before the next request. (R4) a form (or the nil of a failed parse) is stored into Request.multipartForm only where the slot is known to be empty on that path - the field was tested and found nil, or a routine that removes the files and clears the slot ran before; routines that receive the connection reader fill a request emptied by the read entry points (checked: Read/ReadLimitBody clear on every path) or by the serve loop (R3); a ctx goes back to the pool only after RequestCtx.reset; (R5) the serve function leaves, on every return, with its ctx released or handed to the hijack goroutine (decided with the premise, itself checked, that errHijacked is handed out only after that goroutine was started), and the hijack goroutine resets the request it took over on every path, by releaseCtx or Request.Reset. (R9) Request.CopyTo gives the copy the serialised form on the branch that found the request to hold only a pre-parsed form; (R7) a file part is created with a Content-Disposition computed from the key the file is stored under and its current Filename; (R8) hijackConnHandler removes the request's uploaded files on every path to the close of the connection; (R6) in WriteMultipartForm every iteration of a loop over the form's values or files passes a part-creating call of the multipart writer before the loop header is reached again - no entry is skipped, whatever it holds. Not decided: form content round trip beyond that, files moved away by user code.",
		run:     runC35,
	})
}

func isNilStoreTo(in ssa.Instruction, field string) bool {
	st, ok := in.(*ssa.Store)
	if !ok {
		return false
	}
	_, fv := fieldOfAddr(st.Addr)
	return fv != nil && fv.Name() == field && isNilConst(st.Val)
}

func runC34(p *Prog, r *Report) {
	// R-pool: the chunk decoder's position (chunkLeft, chunkedEOF, totalBytesRead, contentLength) lives in a pooled
	// requestStream; a stream released in the middle of a chunk must not hand that position to the next body
	pooledHelperRule(p, r, "requestStream")
	// the bytes of a fixed-length stream that reach the wire are bounded by the declared size (shared with C03.R1)
	runC03Bounded(p, r)
	// the chunked writer frames every byte a Read returned, also the ones that come together with an error (shared with C03.R7)
	runC03ReadData(p, r)
	// E8: the once-guard of the compressed stream wrapper. The flag that says "the original stream was closed"
	// is tested and set by two goroutines (the compressing one and whoever discards the wrapper); the test, the
	// store and the Close call form one critical section, so every access to the flag holds the wrapper's lock.
	checkLockset(p, r, "E8", &lockTable{
		guards:      map[string]string{"compressedBodyStream.originalClosed": "compressedBodyStream.originalLock"},
		heldOnEntry: map[string][]string{},
		exempt:      map[string]string{},
	}, nil)
	helper := p.Func("closeBodyStreamReader")
	n := 0
	closers := map[*ssa.Function]bool{}
	for _, typ := range []string{"Request", "Response"} {
		fn := p.Func("(*" + typ + ").closeBodyStream")
		if fn == nil {
			r.Undecided("R1", typ+".closeBodyStream", "not found")
			continue
		}
		closers[fn] = true
		n++
		closed := func(in ssa.Instruction) bool {
			c, ok := in.(ssa.CallInstruction)
			if !ok {
				return false
			}
			return isCallTo(c, helper) || isInvoke(c, "Close") || isInvoke(c, "CloseWithError")
		}
		bad := false
		var wit []string
		for _, b := range fn.Blocks {
			for _, in := range b.Instrs {
				if !closed(in) {
					continue
				}
				hit, path := reachAvoiding(fn, in, isReturn, func(i ssa.Instruction) bool { return isNilStoreTo(i, "bodyStream") }, nil)
				if hit != nil {
					bad = true
					wit = blocksString(p, path)
				}
			}
		}
		r.Check("R1", typ+".closeBodyStream clears the stream reference on every path on which it closed the stream", !bad, p.Pos(fn.Pos()),
			"a return is reachable after the stream was closed without bodyStream being set to nil (for example when Close returned an error): the closed stream stays attached and the next Reset / ResetBody closes it a second time", wit...)
	}
	r.Floor("R1", "closers", n, 2)
	// R2: other stores
	resetBody := map[string]*ssa.Function{"Request": p.Func("(*Request).ResetBody"), "Response": p.Func("(*Response).ResetBody")}
	nst := 0
	for _, fn := range p.SrcFuncs() {
		if closers[fn] {
			continue
		}
		for _, b := range fn.Blocks {
			for _, in := range b.Instrs {
				st, ok := in.(*ssa.Store)
				if !ok {
					continue
				}
				base, fv := fieldOfAddr(st.Addr)
				if fv == nil || fv.Name() != "bodyStream" {
					continue
				}
				owner := typeNameOf(base)
				if owner != "Request" && owner != "Response" {
					continue
				}
				nst++
				kind, ok2 := "", false
				switch {
				case derivesFromFieldLoad(st.Val, "bodyStream"):
					kind, ok2 = "wraps or swaps the previous stream (ownership moves to the new value)", true
				case isCallResultNamed(st.Val, "acquireRequestStream") || isCallResultNamed(st.Val, "NewReader"):
					kind, ok2 = "read path filling a reset object with a connection-backed / in-memory stream", true
				default:
					// dominated by the closer on the same object
					for _, bb := range fn.Blocks {
						for _, i2 := range bb.Instrs {
							c, isC := i2.(ssa.CallInstruction)
							if !isC {
								continue
							}
							f := c.Common().StaticCallee()
							if f == nil {
								continue
							}
							if (f == resetBody[owner] || closers[f] || f.Name() == "Reset" && recvTypeName(f) == owner) && dominatesInstr(i2, st) {
								kind, ok2 = "dominated by "+funcName(f), true
							}
						}
					}
					if !ok2 && isNilConst(st.Val) {
						// a bare drop: must follow a release of the stream (serve loop) - checked by C02.R2; accept only there
						if fnm := funcName(fn); strings.Contains(fnm, "serveConn") {
							kind, ok2 = "serve loop drop after releaseRequestStream (C02.R2)", true
						}
					}
				}
				r.Check("R2", fmt.Sprintf("store to %s.bodyStream in %s: %s", owner, funcName(fn), kind), ok2, p.Pos(st.Pos()),
					"the previous stream (if any) is overwritten without having been closed: it is never closed, or a caller that still holds it closes it later while the new one is dropped")
			}
		}
	}
	r.Floor("R2", "stores to bodyStream outside the closers", nst, 12)
	// R3: writers reach the closer
	for _, spec := range []string{"(*Request).writeBodyStream", "(*Response).writeBodyStream"} {
		fn := p.Func(spec)
		if fn == nil {
			r.Undecided("R3", spec, "not found")
			continue
		}
		var cl []*ssa.Function
		for f := range closers {
			cl = append(cl, f)
		}
		hit, path := reachAvoiding(fn, nil, isReturn, callTo(cl...), nil)
		r.Check("R3", funcName(fn)+" reaches the closer on every path", hit == nil, p.Pos(fn.Pos()), "a return is reachable without closeBodyStream: the stream stays open after the message was written", blocksString(p, path)...)
	}
	// R4: helper invokes each close method at most once (no loop, one site each)
	if helper != nil {
		cnt := map[string]int{}
		inLoopAny := false
		allCalls(helper, func(b *ssa.BasicBlock, c ssa.CallInstruction) {
			if isInvoke(c, "Close") || isInvoke(c, "CloseWithError") {
				cnt[c.Common().Method.Name()]++
				if loopHeaderOf(b) != nil {
					inLoopAny = true
				}
			}
		})
		r.Check("R4", "closeBodyStreamReader invokes Close and CloseWithError at most once each", cnt["Close"] == 1 && cnt["CloseWithError"] == 1 && !inLoopAny, p.Pos(helper.Pos()), fmt.Sprintf("call sites: %v, inside a loop: %v", cnt, inLoopAny))
	} else {
		r.Undecided("R4", "closeBodyStreamReader", "not found")
	}
}

func derivesFromFieldLoad(v ssa.Value, field string) bool {
	seen := map[ssa.Value]bool{}
	var walk func(v ssa.Value, d int) bool
	walk = func(v ssa.Value, d int) bool {
		if v == nil || seen[v] || d > 8 {
			return false
		}
		seen[v] = true
		if _, fv := loadedField(v); fv != nil && fv.Name() == field {
			return true
		}
		switch w := v.(type) {
		case *ssa.Call:
			for _, a := range w.Call.Args {
				if walk(a, d+1) {
					return true
				}
			}
		case *ssa.MakeInterface:
			return walk(w.X, d+1)
		case *ssa.ChangeInterface:
			return walk(w.X, d+1)
		case *ssa.Phi:
			for _, e := range w.Edges {
				if walk(e, d+1) {
					return true
				}
			}
		case *ssa.MakeClosure:
			for _, b := range w.Bindings {
				if walk(b, d+1) {
					return true
				}
			}
		case *ssa.UnOp:
			// a local that holds the old stream (rbs := resp.bodyStream)
			if al, ok := w.X.(*ssa.Alloc); ok {
				for _, ref := range *al.Referrers() {
					if st, ok := ref.(*ssa.Store); ok && st.Addr == ssa.Value(al) && walk(st.Val, d+1) {
						return true
					}
				}
			}
		case *ssa.Alloc:
			for _, ref := range *w.Referrers() {
				if st, ok := ref.(*ssa.Store); ok && st.Addr == ssa.Value(w) && walk(st.Val, d+1) {
					return true
				}
			}
		}
		return false
	}
	return walk(v, 0)
}

func isCallResultNamed(v ssa.Value, name string) bool {
	v = stripMakeIface(v)
	c, ok := v.(*ssa.Call)
	if !ok {
		return false
	}
	f := c.Call.StaticCallee()
	return f != nil && f.Name() == name
}

func runC35(p *Prog, r *Report) {
	formSlotOverwrittenOnlyWhenEmpty(p, r)
	ctxReleasedOrHandedOver(p, r)
	everyEntryGetsItsPart(p, r)
	filePartNamedByKey(p, r)
	uploadsRemovedBeforeClose(p, r)
	preparsedFormSurvivesCopy(p, r)
	// R1: producers of *multipart.Form
	isFormProducer := func(c *ssa.Call) bool {
		f := c.Call.StaticCallee()
		if f == nil {
			return false
		}
		res := f.Signature.Results()
		return res.Len() == 2 && strings.HasSuffix(res.At(0).Type().String(), "multipart.Form") && (f.Name() == "ReadForm" || f.Name() == "readMultipartForm")
	}
	nprod := 0
	for _, fn := range p.funcsIn("") {
		for _, b := range fn.Blocks {
			for _, in := range b.Instrs {
				pc, ok := in.(*ssa.Call)
				if !ok || !isFormProducer(pc) {
					continue
				}
				nprod++
				var form, perr ssa.Value
				for _, ref := range *pc.Referrers() {
					if ex, ok := ref.(*ssa.Extract); ok {
						if ex.Index == 0 {
							form = ex
						} else {
							perr = ex
						}
					}
				}
				if form == nil {
					r.Check("R1", funcName(fn)+": the form produced by "+calleeShort(pc.Call.StaticCallee())+" is kept", false, p.Pos(pc.Pos()), "the produced form is discarded")
					continue
				}
				const (
					bProduced uint64 = 1 << iota
					bKept
				)
				nret, bad := 0, 0
				var wit []string
				x := NewExplorer(p, fn, Hooks{
					Instr: func(x *Explorer, st *State, i2 ssa.Instruction) {
						switch w := i2.(type) {
						case *ssa.Call:
							if w == pc {
								st.Set(bProduced)
								st.Clear(bKept)
							}
							if w.Call.IsInvoke() || w.Call.StaticCallee() != nil {
								if f := w.Call.StaticCallee(); f != nil && f.Name() == "RemoveAll" && len(w.Call.Args) > 0 && sameVar(w.Call.Args[0], form) {
									st.Set(bKept)
								}
								// RemoveMultipartFormFiles after the form was stored in the field
								if f := w.Call.StaticCallee(); f != nil && f.Name() == "RemoveMultipartFormFiles" {
									st.Set(bKept)
								}
							}
						case *ssa.Store:
							if _, fv := fieldOfAddr(w.Addr); fv != nil && fv.Name() == "multipartForm" && sameVar(w.Val, form) {
								st.Set(bKept)
							}
						}
					},
					Exit: func(x *Explorer, st *State, ret *ssa.Return, pan *ssa.Panic) {
						if ret == nil || !st.Has(bProduced) {
							return
						}
						nret++
						ok := st.Has(bKept)
						for _, rv := range returnResults(ret) {
							if sameVar(rv, form) {
								ok = true
							}
						}
						if perr != nil && x.Eval(st, perr) == True {
							ok = true // the producer failed: it hands back no form
						}
						if !ok {
							bad++
							if wit == nil {
								wit = x.Path(st)
							}
						}
					},
				})
				x.Filter = noIntFilter
				if perr != nil {
					x.Track(perr)
				}
				x.Run(nil)
				r.Check("R1", fmt.Sprintf("%s: the form produced by %s is stored in the request, returned, or removed on every path", funcName(fn), calleeShort(pc.Call.StaticCallee())), bad == 0 && nret > 0, p.Pos(pc.Pos()),
					fmt.Sprintf("%d of %d explored returns after a successful parse drop the form: its temporary files can no longer be found by RemoveMultipartFormFiles / Reset and stay on disk", bad, nret), wit...)
			}
		}
	}
	r.Floor("R1", "form producers", nprod, 2)
	// R2: nil stores to multipartForm follow RemoveAll on the non-nil branch
	nnil := 0
	for _, fn := range p.funcsIn("") {
		for _, b := range fn.Blocks {
			for _, in := range b.Instrs {
				if !isNilStoreTo(in, "multipartForm") {
					continue
				}
				nnil++
				ok := false
				for _, bb := range fn.Blocks {
					for _, i2 := range bb.Instrs {
						if c, isC := i2.(ssa.CallInstruction); isC {
							if f := c.Common().StaticCallee(); f != nil && f.Name() == "RemoveAll" && dominatesInstr(i2, in) {
								ok = true
							}
						}
					}
				}
				r.Check("R2", funcName(fn)+": multipartForm is dropped only after RemoveAll", ok, p.Pos(in.Pos()), "the form reference is set to nil without its temporary files having been removed")
			}
		}
	}
	r.Floor("R2", "nil stores to multipartForm", nnil, 1)
	// R3: reset coverage for the form field, and the serve loop passes Reset
	for _, rp := range []resetPair{{"Request", "Reset", 0}, {"RequestCtx", "reset", 0}} {
		fn := p.Func("(*" + rp.typ + ")." + rp.method)
		if fn == nil {
			r.Undecided("R3", rp.typ+"."+rp.method, "not found")
			continue
		}
		w := fieldsWritten(p, fn, 0, 5)
		fp := "multipartForm"
		if rp.typ == "RequestCtx" {
			fp = "Request.multipartForm"
		}
		r.Check("R3", rp.typ+"."+rp.method+" clears multipartForm on every path", coveredBy(w, fp), p.Pos(fn.Pos()), "a path through the reset method leaves the parsed form (and its temporary files) attached to the recycled object")
	}
	p.serveLoop("C35").report(r, "C35")
}

// formSlotOverwrittenOnlyWhenEmpty (C35.R4): Request.multipartForm is the only
// reference to the temporary files of a parsed form. A new form (or the nil a
// failed parse returns) may be stored there only when the slot is known to be
// empty on that path: the field was tested and found nil, or a routine that
// removes the form's files and clears the slot ran before. Otherwise a parsed
// form is dropped without RemoveAll and its files stay behind for good.
func formSlotOverwrittenOnlyWhenEmpty(p *Prog, r *Report) {
	clears := map[*ssa.Function]bool{}
	for _, name := range []string{"(*Request).RemoveMultipartFormFiles", "(*Request).Reset", "(*Request).resetSkipHeader", "(*Request).ResetBody"} {
		if f := p.Func(name); f != nil {
			clears[f] = true
		}
	}
	// a ctx taken from the pool (or new) has an empty slot, provided every Put into the ctx pool follows a reset
	if acq := p.Func("(*Server).acquireCtx"); acq != nil {
		clears[acq] = true
		ctxReset := p.Func("(*RequestCtx).reset")
		nput := 0
		for _, fn := range p.funcsIn("") {
			for _, b := range fn.Blocks {
				for _, in := range b.Instrs {
					c, ok := in.(ssa.CallInstruction)
					if !ok || c.Common().StaticCallee() == nil || c.Common().StaticCallee().Name() != "Put" || len(c.Common().Args) == 0 {
						continue
					}
					fa, ok := c.Common().Args[0].(*ssa.FieldAddr)
					if !ok || fieldName(fa.X.Type(), fa.Field) != "ctxPool" {
						continue
					}
					nput++
					hit, path := reachAvoiding(fn, nil, func(i ssa.Instruction) bool { return i == in }, func(i ssa.Instruction) bool {
						cc, ok := i.(ssa.CallInstruction)
						return ok && ctxReset != nil && cc.Common().StaticCallee() == ctxReset
					}, nil)
					r.Check("R4", funcName(fn)+": a RequestCtx goes back to the pool only after RequestCtx.reset", hit == nil, p.Pos(in.Pos()),
						"the pooled ctx may still hold a parsed form: the next connection that gets it starts with a filled slot", blocksString(p, path)...)
				}
			}
		}
		r.Floor("R4", "Put calls on the ctx pool", nput, 1)
	}
	// routines that run a clearing routine on every path
	for round := 0; round < 3; round++ {
		for _, fn := range p.funcsIn("") {
			if clears[fn] || fn.Blocks == nil || recvTypeName(fn) != "Request" {
				continue
			}
			isClear := func(i ssa.Instruction) bool {
				c, ok := i.(ssa.CallInstruction)
				return ok && c.Common().StaticCallee() != nil && clears[c.Common().StaticCallee()]
			}
			if hit, _ := reachAvoiding(fn, nil, isReturn, isClear, nil); hit == nil {
				clears[fn] = true
			}
		}
	}
	isFormStore := func(in ssa.Instruction) (*ssa.Store, bool) {
		st, ok := in.(*ssa.Store)
		if !ok {
			return nil, false
		}
		fa, ok := st.Addr.(*ssa.FieldAddr)
		if !ok || typeNameOf(fa.X) != "Request" || fieldName(fa.X.Type(), fa.Field) != "multipartForm" {
			return nil, false
		}
		return st, true
	}
	// routines that may put a form into the slot (directly or through a callee)
	mayFill := map[*ssa.Function]bool{}
	for changed := true; changed; {
		changed = false
		for _, fn := range p.funcsIn("") {
			if mayFill[fn] || clears[fn] {
				continue
			}
			for _, b := range fn.Blocks {
				for _, in := range b.Instrs {
					if st, ok := isFormStore(in); ok && !isNilConst(st.Val) {
						mayFill[fn] = true
					}
					if c, ok := in.(ssa.CallInstruction); ok && c.Common().StaticCallee() != nil && mayFill[c.Common().StaticCallee()] {
						mayFill[fn] = true
					}
				}
			}
			if mayFill[fn] {
				changed = true
			}
		}
	}
	const bEmpty uint64 = 1
	isFormLoad := func(v ssa.Value) bool {
		_, fv := loadedField(v)
		return fv != nil && fv.Name() == "multipartForm"
	}
	type res struct {
		n, bad int
		wit    []string
	}
	// explore fn; points are the instructions at which the slot must be empty (stores of a form, or calls of a
	// routine that relies on an empty slot)
	explore := func(fn *ssa.Function, points map[ssa.Instruction]bool, entryEmpty bool) (map[ssa.Instruction]*res, bool) {
		out := map[ssa.Instruction]*res{}
		x := NewExplorer(p, fn, Hooks{
			Instr: func(x *Explorer, st *State, in ssa.Instruction) {
				if points[in] {
					rr := out[in]
					if rr == nil {
						rr = &res{}
						out[in] = rr
					}
					rr.n++
					if !st.Has(bEmpty) {
						rr.bad++
						if rr.wit == nil {
							rr.wit = x.Path(st)
						}
					}
				}
				switch w := in.(type) {
				case ssa.CallInstruction:
					if f := w.Common().StaticCallee(); f != nil {
						switch {
						case clears[f]:
							st.Set(bEmpty)
						case mayFill[f]:
							st.Clear(bEmpty)
						}
					} else if _, isBuiltin := w.Common().Value.(*ssa.Builtin); isBuiltin {
						// len, append, copy ...
					} else if _, isGo := in.(*ssa.Go); !isGo && !w.Common().IsInvoke() {
						// a handler or callback runs: it may parse the form
						st.Clear(bEmpty)
					}
				case *ssa.Store:
					if st2, ok := isFormStore(w); ok {
						if isNilConst(st2.Val) {
							st.Set(bEmpty)
						} else {
							st.Clear(bEmpty)
						}
					}
				}
			},
			Branch: func(x *Explorer, st *State, cond ssa.Value, taken bool, from *ssa.BasicBlock) {
				pos, v := stripNot(cond)
				bo, ok := v.(*ssa.BinOp)
				if !ok || (bo.Op != token.EQL && bo.Op != token.NEQ) {
					return
				}
				var other ssa.Value
				switch {
				case isFormLoad(bo.X):
					other = bo.Y
				case isFormLoad(bo.Y):
					other = bo.X
				}
				if other == nil || !isNilConst(other) {
					return
				}
				if (bo.Op == token.EQL) == (taken == pos) {
					st.Set(bEmpty)
				} else {
					st.Clear(bEmpty)
				}
			},
		})
		x.Filter = noIntFilter
		init := &State{}
		if entryEmpty {
			init.Set(bEmpty)
		}
		x.Run(init)
		return out, x.Aborted
	}
	// entryEmpty: is fn only ever entered (from inside the module) with the slot empty?
	memo := map[*ssa.Function]int{} // 1 yes, 2 no, 3 in progress
	var why []string
	var entryEmpty func(fn *ssa.Function, depth int) bool
	entryEmpty = func(fn *ssa.Function, depth int) bool {
		switch memo[fn] {
		case 1:
			return true
		case 2, 3:
			return false
		}
		memo[fn] = 3
		ncall, ok := 0, depth > 0
		for _, caller := range p.funcsIn("") {
			if !ok {
				break
			}
			cp := map[ssa.Instruction]bool{}
			for _, b := range caller.Blocks {
				for _, in := range b.Instrs {
					if c, isCall := in.(ssa.CallInstruction); isCall && c.Common().StaticCallee() == fn {
						cp[in] = true
					}
				}
			}
			if len(cp) == 0 {
				continue
			}
			ncall += len(cp)
			good := func(co map[ssa.Instruction]*res, ab bool) bool {
				if ab {
					return false
				}
				for in := range cp {
					if rr := co[in]; rr == nil || rr.bad > 0 {
						return false
					}
				}
				return true
			}
			if good(explore(caller, cp, false)) {
				continue
			}
			if entryEmpty(caller, depth-1) && good(explore(caller, cp, true)) {
				continue
			}
			ok = false
			co, ab := explore(caller, cp, false)
			detail := ""
			if ab {
				detail = " [exploration of the caller exhausted its state budget]"
			}
			for in := range cp {
				if rr := co[in]; rr != nil && rr.bad > 0 {
					detail += fmt.Sprintf(" [%s: %d of %d arrivals; %s]", p.Pos(in.Pos()), rr.bad, rr.n, strings.Join(rr.wit, " > "))
				}
			}
			why = append(why, funcName(fn)+" is called with a possibly filled slot from "+funcName(caller)+detail)
		}
		if ncall == 0 {
			ok = false // an entry point of the API: nothing is known about the request it is applied to
		}
		if ok {
			memo[fn] = 1
		} else {
			memo[fn] = 2
		}
		return ok
	}
	n := 0
	for _, fn := range p.funcsIn("") {
		points := map[ssa.Instruction]bool{}
		var stores []*ssa.Store
		for _, b := range fn.Blocks {
			for _, in := range b.Instrs {
				if st, ok := isFormStore(in); ok && !isNilConst(st.Val) {
					stores = append(stores, st)
					points[st] = true
				}
			}
		}
		if len(stores) == 0 {
			continue
		}
		// wire-read path: a routine that receives the connection reader fills a request whose slot was emptied by the
		// read entry point (Read / ReadLimitBody begin with resetSkipHeader - checked below) or by the serve loop's
		// Reset before the next request (R3); "continue" routines resume such a read
		takesReader := false
		for _, prm := range fn.Params {
			if strings.HasSuffix(prm.Type().String(), "bufio.Reader") {
				takesReader = true
			}
		}
		if takesReader {
			for i, s := range stores {
				n++
				r.Check("R4", fmt.Sprintf("%s: store #%d into Request.multipartForm happens only when the slot is empty", funcName(fn), i+1), true, p.Pos(s.Pos()),
					"wire-read path: emptiness is the contract of the read entry points (checked: they begin by clearing) and of the serve loop (R3)")
			}
			continue
		}
		out, aborted := explore(fn, points, false)
		anyBad := false
		for _, s := range stores {
			if rr := out[s]; rr != nil && rr.bad > 0 {
				anyBad = true
			}
		}
		via := ""
		if anyBad {
			// the routine fills a request its callers have cleared: every call site in the module (and, where needed,
			// the callers' callers) must be reached with the slot empty; then it is judged again from an empty slot
			why = nil
			if entryEmpty(fn, 3) {
				out, aborted = explore(fn, points, true)
				via = " (judged from an empty slot: every call site in the module is reached with the slot cleared)"
			} else {
				sort.Strings(why)
				via = " (" + strings.Join(why, "; ") + ")"
			}
		}
		for i, s := range stores {
			n++
			rr := out[s]
			construct := fmt.Sprintf("%s: store #%d into Request.multipartForm happens only when the slot is empty", funcName(fn), i+1)
			if rr == nil || aborted {
				r.Undecided("R4", construct, "the store was not reached by the exploration")
				continue
			}
			r.Check("R4", construct, rr.bad == 0, p.Pos(s.Pos()),
				fmt.Sprintf("%d of %d explored arrivals overwrite a slot that may still hold a parsed form (no nil test of the field and no removing routine on the path)%s: that form's temporary files lose their only reference and are never removed", rr.bad, rr.n, via), rr.wit...)
		}
	}
	// the read entry points begin by clearing
	nentry := 0
	for _, fn := range p.funcsIn("") {
		if recvTypeName(fn) != "Request" || fn.Object() == nil || !fn.Object().Exported() || !strings.HasPrefix(fn.Name(), "Read") {
			continue
		}
		takesReader := false
		for _, prm := range fn.Params {
			if strings.HasSuffix(prm.Type().String(), "bufio.Reader") {
				takesReader = true
			}
		}
		if !takesReader || !mayFill[fn] && !clears[fn] {
			continue
		}
		nentry++
		r.Check("R4", funcName(fn)+": the read entry point clears the request (and its form slot) on every path before reading into it", clears[fn], p.Pos(fn.Pos()),
			"a form left in the request by its previous use is overwritten by the pre-parsed form of the next read")
	}
	r.Floor("R4", "exported read entry points of Request", nentry, 2)
	r.Counts["R4 clearing routines (given + derived must-clear)"] = len(clears)
	r.Counts["R4 routines that may fill the slot"] = len(mayFill)
	{
		var names []string
		for f := range mayFill {
			names = append(names, funcName(f))
		}
		sort.Strings(names)
		r.Note("R4 may-fill routines: %s", strings.Join(names, ", "))
	}
	r.Floor("R4", "stores of a form into Request.multipartForm", n, 3)
}

// ctxReleasedOrHandedOver (C35.R5): the RequestCtx - and with it the request's
// parsed form - is reset by releaseCtx. The serve function must, on every
// return, have released its current ctx or have started the hijack goroutine
// that releases it. (A requested hijack whose response could not be written
// never starts that goroutine: the ctx is still the serve function's to
// release.)
func ctxReleasedOrHandedOver(p *Prog, r *Report) {
	fn := p.Func("(*Server).serveConnCounted")
	rel := p.Func("(*Server).releaseCtx")
	hj := p.Func("hijackConnHandler")
	acq := p.Func("(*Server).acquireCtx")
	if fn == nil || rel == nil || hj == nil || acq == nil {
		r.Undecided("R5", "serveConnCounted / releaseCtx / hijackConnHandler / acquireCtx", "anchor not found")
		return
	}
	const (
		bHeld uint64 = 1 << iota
		bGone
		bHanded
		bInfeasible
	)
	// premise for reading 'err == errHijacked': the sentinel is given to a variable only after the hijack goroutine
	// was started, and no other function hands it out (elsewhere it is only compared against)
	var sentinel *ssa.Global
	for _, m := range p.Root().Members {
		if g, ok := m.(*ssa.Global); ok && g.Name() == "errHijacked" {
			sentinel = g
		}
	}
	premise := sentinel != nil
	var goBlocks []*ssa.BasicBlock
	for _, b := range fn.Blocks {
		for _, in := range b.Instrs {
			if g, ok := in.(*ssa.Go); ok && g.Common().StaticCallee() == hj {
				goBlocks = append(goBlocks, b)
			}
		}
	}
	isCompareUse := func(ref ssa.Instruction) bool {
		switch w := ref.(type) {
		case *ssa.BinOp:
			return w.Op == token.EQL || w.Op == token.NEQ
		case *ssa.MakeInterface, *ssa.ChangeInterface:
			return true // argument of errors.Is
		case ssa.CallInstruction:
			f := w.Common().StaticCallee()
			return f != nil && f.Pkg != nil && f.Pkg.Pkg.Path() == "errors"
		}
		return false
	}
	if premise {
		for _, f := range p.funcsIn("") {
			for _, b := range f.Blocks {
				for _, in := range b.Instrs {
					u, ok := in.(*ssa.UnOp)
					if !ok || u.Op != token.MUL || u.X != ssa.Value(sentinel) {
						continue
					}
					for _, ref := range *u.Referrers() {
						if isCompareUse(ref) {
							continue
						}
						after := false
						if f == fn {
							for _, gb := range goBlocks {
								if gb == b || gb.Dominates(b) {
									after = true
								}
							}
						}
						if !after {
							premise = false
						}
					}
				}
			}
		}
	}
	r.Check("R5", "errHijacked is handed out only after the hijack goroutine was started (premise for reading 'err != errHijacked' as 'not handed over')", premise, p.Pos(fn.Pos()),
		"the sentinel is assigned or returned somewhere else: a test against it no longer says that hijackConnHandler owns the ctx")
	// the goroutine that took the ctx over resets the request on every path: by releasing the ctx or, where the ctx
	// has to stay alive, by resetting the request itself
	{
		reqReset := p.Func("(*Request).Reset")
		hit, path := reachAvoiding(hj, nil, isReturn, func(i ssa.Instruction) bool {
			c, ok := i.(ssa.CallInstruction)
			return ok && (c.Common().StaticCallee() == rel || (reqReset != nil && c.Common().StaticCallee() == reqReset))
		}, nil)
		r.Check("R5", "hijackConnHandler: the request it took over is reset (releaseCtx or Request.Reset) on every path", hit == nil, p.Pos(hj.Pos()),
			"a return is reachable on which the ctx is neither released nor its request reset: the temporary files of an uploaded form are never removed", blocksString(p, path)...)
	}
	n, bad := 0, 0
	var wit []string
	pos := fn.Pos()
	x := NewExplorer(p, fn, Hooks{
		Branch: func(x *Explorer, st *State, cond ssa.Value, taken bool, from *ssa.BasicBlock) {
			if !premise {
				return
			}
			pol, v := stripNot(cond)
			bo, ok := v.(*ssa.BinOp)
			if !ok || (bo.Op != token.EQL && bo.Op != token.NEQ) {
				return
			}
			isS := func(v ssa.Value) bool {
				u, ok := v.(*ssa.UnOp)
				return ok && u.Op == token.MUL && u.X == ssa.Value(sentinel)
			}
			if !isS(bo.X) && !isS(bo.Y) {
				return
			}
			equal := (bo.Op == token.EQL) == (taken == pol)
			if equal != st.Has(bHanded) {
				st.Set(bInfeasible) // by the premise the variable holds the sentinel exactly on the paths through the go statement
			}
		},
		Prune: func(x *Explorer, st *State, b *ssa.BasicBlock) bool { return st.Has(bInfeasible) },
		Instr: func(x *Explorer, st *State, in ssa.Instruction) {
			c, ok := in.(ssa.CallInstruction)
			if !ok {
				return
			}
			switch c.Common().StaticCallee() {
			case acq:
				st.Set(bHeld)
				st.Clear(bGone | bHanded)
			case rel:
				st.Set(bGone)
			case hj:
				if _, isGo := in.(*ssa.Go); isGo {
					st.Set(bGone | bHanded)
				}
			}
		},
		Exit: func(x *Explorer, st *State, ret *ssa.Return, pan *ssa.Panic) {
			if ret == nil || !st.Has(bHeld) {
				return
			}
			n++
			if !st.Has(bGone) {
				bad++
				if wit == nil {
					wit = x.Path(st)
					pos = ret.Pos()
				}
			}
		},
	})
	x.Filter = func(key string) bool {
		return strings.Contains(key, "ijack") || strings.Contains(key, "err")
	}
	x.MaxStates = 1500000
	x.Run(nil)
	if x.Aborted || n == 0 {
		r.Undecided("R5", "serveConnCounted: the ctx is released or handed to the hijack goroutine on every return", "exploration gave no verdict")
		return
	}
	r.Check("R5", "serveConnCounted: the ctx is released or handed to the hijack goroutine on every return", bad == 0, p.Pos(pos),
		fmt.Sprintf("%d of %d explored returns leave the function with the ctx neither released nor handed over: its request is never reset, so the temporary files of an uploaded form stay on disk after the connection is gone", bad, n), wit...)
}

// everyEntryGetsItsPart (C35.R6): serialising a form writes one part per value and one per file, whatever the part
// holds. In WriteMultipartForm every loop that contains a part-creating call of the multipart writer (WriteField,
// CreatePart, CreateFormFile, CreateFormField) passes such a call on every path from the loop header back to it: an
// iteration that continues before the part was created (empty file, empty value) drops the entry - name, filename
// and content type included - from the message, and the form does not round-trip.
func everyEntryGetsItsPart(p *Prog, r *Report) {
	fn := p.Func("WriteMultipartForm")
	if fn == nil {
		r.Undecided("R6", "WriteMultipartForm", "not found")
		return
	}
	creates := func(i ssa.Instruction) bool {
		c, ok := i.(ssa.CallInstruction)
		if !ok || c.Common().StaticCallee() == nil {
			return false
		}
		f := c.Common().StaticCallee()
		if recvTypeName(f) != "Writer" || f.Pkg == nil || f.Pkg.Pkg.Path() != "mime/multipart" {
			return false
		}
		switch f.Name() {
		case "WriteField", "CreatePart", "CreateFormFile", "CreateFormField":
			return true
		}
		return false
	}
	headers := map[*ssa.BasicBlock]token.Pos{}
	for _, b := range fn.Blocks {
		for _, in := range b.Instrs {
			if creates(in) {
				if h := loopHeaderOf(b); h != nil {
					if _, seen := headers[h]; !seen {
						headers[h] = in.Pos()
					}
				}
			}
		}
	}
	var hs []*ssa.BasicBlock
	for h := range headers {
		hs = append(hs, h)
	}
	sort.Slice(hs, func(i, j int) bool { return hs[i].Index < hs[j].Index })
	for k, h := range hs {
		pos := headers[h]
		term := h.Instrs[len(h.Instrs)-1]
		first := h.Instrs[0]
		outside := map[*ssa.BasicBlock]bool{}
		for _, b := range fn.Blocks {
			if !inLoop(h, b) {
				outside[b] = true
			}
		}
		hit, path := reachAvoiding(fn, term, func(i ssa.Instruction) bool { return i == first }, creates, outside)
		r.Check("R6", fmt.Sprintf("WriteMultipartForm: every iteration of entry loop #%d creates the entry's part", k+1), hit == nil, p.Pos(pos),
			"the loop header is reachable again from itself without a part-creating call of the multipart writer: an entry for which the iteration continues early (an empty file, say) leaves no part in the message - its name, filename and content type are lost and the written form does not parse back to the original", blocksString(p, path)...)
	}
	r.Floor("R6", "entry loops with a part-creating call in WriteMultipartForm", len(headers), 2)
}

// filePartNamedByKey (C35.R7): a file part of a written form is named by the key the file is stored under and by its
// current FileHeader.Filename. In WriteMultipartForm the header given to the part-creating call of a file carries a
// Content-Disposition computed from the loop's key and the Filename field (multipart.FileContentDisposition, or the
// part is created with CreateFormFile from them) - the header the file was once parsed with is not written verbatim.
func filePartNamedByKey(p *Prog, r *Report) {
	fn := p.Func("WriteMultipartForm")
	if fn == nil {
		r.Undecided("R7", "WriteMultipartForm", "not found")
		return
	}
	n := 0
	allCalls(fn, func(b *ssa.BasicBlock, c ssa.CallInstruction) {
		f := c.Common().StaticCallee()
		if f == nil || recvTypeName(f) != "Writer" || f.Pkg == nil || f.Pkg.Pkg.Path() != "mime/multipart" {
			return
		}
		if f.Name() != "CreatePart" && f.Name() != "CreateFormFile" {
			return
		}
		n++
		named := f.Name() == "CreateFormFile"
		if !named {
			// a disposition computed from a key and a file name is put into the header before the part is created
			for _, bb := range fn.Blocks {
				for _, in := range bb.Instrs {
					cc, ok := in.(*ssa.Call)
					if !ok || cc.Call.StaticCallee() == nil || cc.Call.StaticCallee().Name() != "FileContentDisposition" || len(cc.Call.Args) != 2 {
						continue
					}
					fromName := false
					if _, fv := loadedField(cc.Call.Args[1]); fv != nil && fv.Name() == "Filename" {
						fromName = true
					}
					if fromName && dominatesInstr(in, c) {
						named = true
					}
				}
			}
		}
		r.Check("R7", "WriteMultipartForm: a file part is named by the key it is stored under and by its current file name", named, p.Pos(c.Pos()),
			"the part is created from the header the file was parsed with, no Content-Disposition is computed from the map key and FileHeader.Filename: a file moved to another key (or renamed) is written under its old name, and the form does not parse back to what was written")
	})
	r.Floor("R7", "file parts created in WriteMultipartForm", n, 1)
}

// uploadsRemovedBeforeClose (C35.R8): when the hijack handler has returned and the connection is not kept, the uploaded
// files of the request are removed before the connection is closed: in hijackConnHandler every path to c.Close()
// passes a call that removes the request's multipart files (RemoveMultipartFormFiles, or a Reset of the request).
func uploadsRemovedBeforeClose(p *Prog, r *Report) {
	fn := p.Func("hijackConnHandler")
	if fn == nil {
		r.Undecided("R8", "hijackConnHandler", "not found")
		return
	}
	removes := func(i ssa.Instruction) bool {
		c, ok := i.(ssa.CallInstruction)
		if !ok || c.Common().StaticCallee() == nil {
			return false
		}
		f := c.Common().StaticCallee()
		return recvTypeName(f) == "Request" && (f.Name() == "RemoveMultipartFormFiles" || f.Name() == "Reset")
	}
	n := 0
	for _, b := range fn.Blocks {
		for _, in := range b.Instrs {
			c, ok := in.(ssa.CallInstruction)
			if !ok || !c.Common().IsInvoke() || c.Common().Method.Name() != "Close" || !typeIsNetConn(c.Common().Value.Type()) {
				continue
			}
			n++
			hit, path := reachAvoiding(fn, nil, func(i ssa.Instruction) bool { return i == in }, removes, nil)
			r.Check("R8", "hijackConnHandler removes the request's uploaded files before it closes the connection", hit == nil, p.Pos(in.Pos()),
				"c.Close() is reachable without the removal of the request's multipart files: the temporary files of the upload outlive the connection they came over", blocksString(p, path)...)
		}
	}
	r.Floor("R8", "closes of the hijacked connection in hijackConnHandler", n, 1)
}

// preparsedFormSurvivesCopy (C35.R9): a request that was read with its multipart form pre-parsed keeps its data in the
// form, not in the body. Request.CopyTo (and everything built on it: RequestCtx.Init) carries that data over: it asks
// whether the request holds only a form and, on that branch, gives the destination the form's serialisation.
func preparsedFormSurvivesCopy(p *Prog, r *Report) {
	fn := p.Func("(*Request).CopyTo")
	marshal := p.Func("marshalMultipartForm")
	if fn == nil || marshal == nil {
		r.Undecided("R9", "(*Request).CopyTo / marshalMultipartForm", "not found")
		return
	}
	var call ssa.Instruction
	allCalls(fn, func(b *ssa.BasicBlock, c ssa.CallInstruction) {
		if c.Common().StaticCallee() == marshal {
			call = c
		}
	})
	underForm := false
	if call != nil {
		for _, g := range guardsOfDepth(call.Block(), 2) {
			if strings.Contains(g.Atom, "multipartForm") && g.Pol {
				underForm = true
			}
		}
		for _, pr := range call.Block().Preds {
			if iff, ok := pr.Instrs[len(pr.Instrs)-1].(*ssa.If); ok && pr.Succs[0] == call.Block() {
				if hasAtomContaining(condAtomsDepth(iff.Cond, 2), "multipartForm") || hasAtomContaining(condAtomsDepth(iff.Cond, 2), "onlyMultipartForm") {
					underForm = true
				}
			}
		}
	}
	r.Check("R9", "Request.CopyTo gives the copy the serialised form when the request holds only a pre-parsed form", call != nil && underForm, p.Pos(fn.Pos()),
		"CopyTo copies the body bytes only: a request whose multipart body was consumed into req.multipartForm when it was read (the server's pre-parse) is copied without its data - the copy's MultipartForm() fails with 'form size must be greater than 0' and FormValue returns nothing")
}
