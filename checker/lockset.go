package main

// E8: lockset discipline. Forward must-analysis of the set of mutexes held at
// each program point of a function (Lock/RLock add, Unlock/RUnlock remove,
// deferred unlocks keep the lock to the end), then every load/store of a field
// listed in the guarded-by table must see its lock held.
//
// Lock identity is by owner type and field ("workerPool.lock"): the analysis is
// instance-insensitive and assumes that a method locks the mutex of the object
// whose fields it touches, which holds for the receiver-based code of this
// repository (every table entry was confirmed by reading).

import (
	"fmt"
	"go/token"
	"go/types"
	"sort"
	"strings"

	"golang.org/x/tools/go/ssa"
)

type lockTable struct {
	// "Type.field" -> "Type.mutexField"
	guards map[string]string
	// functions analysed with locks held on entry; every call site is checked to hold them
	heldOnEntry map[string][]string // funcName -> lock keys
	// functions (by funcName) whose accesses are exempt, with the reason
	exempt map[string]string
}

func mutexKey(v ssa.Value) string {
	// v is the receiver of Lock/Unlock: &x.mu (FieldAddr) or a loaded pointer to a mutex
	switch w := v.(type) {
	case *ssa.FieldAddr:
		return typeNameOf(w.X) + "." + fieldName(w.X.Type(), w.Field)
	case *ssa.UnOp:
		if fa, ok := w.X.(*ssa.FieldAddr); ok {
			return typeNameOf(fa.X) + "." + fieldName(fa.X.Type(), fa.Field)
		}
	case *ssa.Global:
		return "global." + w.Name()
	}
	return ""
}

// lockOp classifies a call: +1 lock, -1 unlock; mode "w" or "r".
func lockOp(c ssa.CallInstruction) (key string, op int, mode string) {
	f := c.Common().StaticCallee()
	if f == nil || f.Pkg == nil || f.Pkg.Pkg.Path() != "sync" || len(c.Common().Args) == 0 {
		return "", 0, ""
	}
	rt := recvTypeName(f)
	if rt != "Mutex" && rt != "RWMutex" {
		return "", 0, ""
	}
	key = mutexKey(c.Common().Args[0])
	switch f.Name() {
	case "Lock":
		return key, 1, "w"
	case "RLock":
		return key, 1, "r"
	case "Unlock":
		return key, -1, "w"
	case "RUnlock":
		return key, -1, "r"
	}
	return "", 0, ""
}

type heldSet map[string]bool // "key" (write) or "key:r"

func (h heldSet) clone() heldSet {
	n := heldSet{}
	for k := range h {
		n[k] = true
	}
	return n
}

func (h heldSet) holds(key string, write bool) bool {
	if h[key] {
		return true
	}
	return !write && h[key+":r"]
}

func intersectHeld(a, b heldSet) heldSet {
	n := heldSet{}
	for k := range a {
		if b[k] {
			n[k] = true
		}
	}
	return n
}

func equalHeld(a, b heldSet) bool {
	if len(a) != len(b) {
		return false
	}
	for k := range a {
		if !b[k] {
			return false
		}
	}
	return true
}

// heldAt computes, for every instruction of fn, the set of locks definitely held before it executes.
func heldAt(fn *ssa.Function, entry heldSet, calleeLocks func(c ssa.CallInstruction) (acq, rel []string)) map[ssa.Instruction]heldSet {
	out := map[ssa.Instruction]heldSet{}
	if len(fn.Blocks) == 0 {
		return out
	}
	in := make([]heldSet, len(fn.Blocks))
	outB := make([]heldSet, len(fn.Blocks))
	visited := make([]bool, len(fn.Blocks))
	transfer := func(b *ssa.BasicBlock, h heldSet, record bool) heldSet {
		h = h.clone()
		for _, ins := range b.Instrs {
			if record {
				out[ins] = h.clone()
			}
			c, ok := ins.(ssa.CallInstruction)
			if !ok {
				continue
			}
			if _, isDefer := ins.(*ssa.Defer); isDefer {
				continue // a deferred unlock releases at function exit: the lock stays held for the rest of the body
			}
			if _, isGo := ins.(*ssa.Go); isGo {
				continue
			}
			if key, op, mode := lockOp(c); op != 0 && key != "" {
				k := key
				if mode == "r" {
					k = key + ":r"
				}
				if op > 0 {
					h[k] = true
				} else {
					delete(h, k)
				}
				continue
			}
			if calleeLocks != nil {
				acq, rel := calleeLocks(c)
				for _, k := range acq {
					h[k] = true
				}
				for _, k := range rel {
					delete(h, k)
				}
			}
		}
		return h
	}
	in[0] = entry.clone()
	work := []*ssa.BasicBlock{fn.Blocks[0]}
	for len(work) > 0 {
		b := work[0]
		work = work[1:]
		var h heldSet
		if b.Index == 0 {
			h = entry.clone()
		} else {
			first := true
			for _, pr := range b.Preds {
				if !visited[pr.Index] {
					continue
				}
				if first {
					h = outB[pr.Index].clone()
					first = false
				} else {
					h = intersectHeld(h, outB[pr.Index])
				}
			}
			if first {
				continue
			}
		}
		o := transfer(b, h, false)
		if !visited[b.Index] || !equalHeld(o, outB[b.Index]) || !equalHeld(h, in[b.Index]) {
			visited[b.Index] = true
			in[b.Index] = h
			outB[b.Index] = o
			work = append(work, b.Succs...)
		}
	}
	for _, b := range fn.Blocks {
		if visited[b.Index] {
			transfer(b, in[b.Index], true)
		}
	}
	return out
}

// checkLockset reports every access to a guarded field that does not hold its lock.
func checkLockset(p *Prog, r *Report, rule string, tbl *lockTable, scope func(fn *ssa.Function) bool) {
	type acc struct {
		n, bad int
		pos    string
		where  map[string]bool
	}
	stats := map[string]*acc{}
	// wrapper methods that lock/unlock a mutex of their receiver on all paths (e.g. cache.Lock())
	for _, fn := range p.SrcFuncs() {
		if scope != nil && !scope(fn) {
			continue
		}
		name := funcName(fn)
		entry := heldSet{}
		for _, k := range tbl.heldOnEntry[name] {
			entry[k] = true
		}
		// a closure passed to / run inside its parent while the parent holds a lock is not modelled: closures start empty
		held := heldAt(fn, entry, nil)
		for _, b := range fn.Blocks {
			for _, ins := range b.Instrs {
				var fa *ssa.FieldAddr
				write := false
				switch w := ins.(type) {
				case *ssa.Store:
					fa, _ = w.Addr.(*ssa.FieldAddr)
					write = true
				case *ssa.UnOp:
					if w.Op == token.MUL {
						fa, _ = w.X.(*ssa.FieldAddr)
					}
				case ssa.CallInstruction:
					// call sites of functions that require locks
					if f := w.Common().StaticCallee(); f != nil {
						if need := tbl.heldOnEntry[funcName(f)]; len(need) > 0 {
							for _, k := range need {
								key := "call " + funcName(f) + " requires " + k
								a := stats[key]
								if a == nil {
									a = &acc{where: map[string]bool{}}
									stats[key] = a
								}
								a.n++
								if !held[ins].holds(k, true) && tbl.exempt[name] == "" {
									a.bad++
									a.where[name] = true
									if a.pos == "" {
										a.pos = p.Pos(ins.Pos())
									}
								}
							}
						}
					}
					continue
				}
				if fa == nil {
					continue
				}
				fkey := typeNameOf(fa.X) + "." + fieldName(fa.X.Type(), fa.Field)
				lock, guarded := tbl.guards[fkey]
				if !guarded {
					continue
				}
				// object under construction in this function
				if al, ok := fa.X.(*ssa.Alloc); ok && al.Parent() == fn {
					continue
				}
				key := fkey + " under " + lock
				a := stats[key]
				if a == nil {
					a = &acc{where: map[string]bool{}}
					stats[key] = a
				}
				a.n++
				if held[ins].holds(lock, write) {
					continue
				}
				if tbl.exempt[name] != "" {
					continue
				}
				a.bad++
				a.where[name] = true
				if a.pos == "" {
					a.pos = p.Pos(ins.Pos())
				}
			}
		}
	}
	keys := make([]string, 0, len(stats))
	for k := range stats {
		keys = append(keys, k)
	}
	sort.Strings(keys)
	for _, k := range keys {
		a := stats[k]
		r.Check(rule, k, a.bad == 0, a.pos, fmt.Sprintf("%d of %d accesses happen without the lock held, in: %s", a.bad, a.n, joinSorted(a.where)))
	}
	checkContainerAliases(p, r, rule, tbl, scope)
	for fn, why := range tbl.exempt {
		r.Note("%s exempt %s: %s", rule, fn, why)
	}
	// every table entry must have matched at least one access
	for fkey, lock := range tbl.guards {
		if stats[fkey+" under "+lock] == nil {
			r.Undecided(rule, fkey+" under "+lock, "no access to this field was found: the guarded-by table is stale")
		}
	}
}

func shortType(s string) string {
	if i := strings.LastIndex(s, "."); i >= 0 {
		return s[i+1:]
	}
	return s
}

// checkContainerAliases: a guarded slice or map field read under its lock
// yields a header that shares its backing storage with the field. Element
// accesses through that alias (indexing, ranging, map lookup/update, copying
// from it) need the lock as well - unless, on every path from the read to the
// access, the field itself was re-assigned a value that does not derive from
// the alias (the swap-out idiom: the old storage became private).
func checkContainerAliases(p *Prog, r *Report, rule string, tbl *lockTable, scope func(fn *ssa.Function) bool) {
	nAlias := 0
	type finding struct {
		pos, where string
		path       []string
	}
	bad := map[string]*finding{}
	seenField := map[string]int{}
	for _, fn := range p.SrcFuncs() {
		if scope != nil && !scope(fn) {
			continue
		}
		name := funcName(fn)
		if tbl.exempt[name] != "" {
			continue
		}
		var held map[ssa.Instruction]heldSet
		for _, b := range fn.Blocks {
			for _, ins := range b.Instrs {
				ld, ok := ins.(*ssa.UnOp)
				if !ok || ld.Op != token.MUL {
					continue
				}
				fa, ok := ld.X.(*ssa.FieldAddr)
				if !ok {
					continue
				}
				fkey := typeNameOf(fa.X) + "." + fieldName(fa.X.Type(), fa.Field)
				lock, guarded := tbl.guards[fkey]
				if !guarded {
					continue
				}
				switch ld.Type().Underlying().(type) {
				case *types.Slice, *types.Map:
				default:
					continue
				}
				if al, ok := fa.X.(*ssa.Alloc); ok && al.Parent() == fn {
					continue
				}
				if held == nil {
					entry := heldSet{}
					for _, k := range tbl.heldOnEntry[name] {
						entry[k] = true
					}
					held = heldAt(fn, entry, nil)
				}
				nAlias++
				seenField[fkey]++
				// values sharing the backing storage
				derived := map[ssa.Value]bool{ld: true}
				// every other read of the same field sees the same storage unless a detaching store intervened;
				// treating them as one class keeps 'x.f = x.f[:0]' from counting as a swap-out
				for _, bb := range fn.Blocks {
					for _, i2 := range bb.Instrs {
						if u2, ok := i2.(*ssa.UnOp); ok && u2.Op == token.MUL {
							if fa2, ok := u2.X.(*ssa.FieldAddr); ok && fa2.Field == fa.Field && typeNameOf(fa2.X) == typeNameOf(fa.X) {
								derived[u2] = true
							}
						}
					}
				}
				for changed := true; changed; {
					changed = false
					for _, bb := range fn.Blocks {
						for _, i2 := range bb.Instrs {
							v, isV := i2.(ssa.Value)
							if !isV || derived[v] {
								continue
							}
							switch w := i2.(type) {
							case *ssa.Slice:
								if derived[w.X] {
									derived[v], changed = true, true
								}
							case *ssa.Phi:
								for _, e := range w.Edges {
									if derived[e] {
										derived[v], changed = true, true
									}
								}
							case *ssa.ChangeType:
								if derived[w.X] {
									derived[v], changed = true, true
								}
							case *ssa.Call:
								if bi, ok := w.Call.Value.(*ssa.Builtin); ok && bi.Name() == "append" && len(w.Call.Args) > 0 && derived[w.Call.Args[0]] {
									derived[v], changed = true, true
								}
							}
						}
					}
				}
				detaches := func(i ssa.Instruction) bool {
					st, ok := i.(*ssa.Store)
					if !ok {
						return false
					}
					fa2, ok := st.Addr.(*ssa.FieldAddr)
					if !ok || fa2.Field != fa.Field || typeNameOf(fa2.X) != typeNameOf(fa.X) {
						return false
					}
					return !derived[st.Val]
				}
				for _, bb := range fn.Blocks {
					for _, i2 := range bb.Instrs {
						touch, write := false, false
						switch w := i2.(type) {
						case *ssa.IndexAddr:
							touch = derived[w.X]
							// a store through the element address is a write; decide by the referrers
							if touch && w.Referrers() != nil {
								for _, ref := range *w.Referrers() {
									if st, ok := ref.(*ssa.Store); ok && st.Addr == ssa.Value(w) {
										write = true
									}
								}
							}
						case *ssa.Index:
							touch = derived[w.X]
						case *ssa.Lookup:
							touch = derived[w.X]
						case *ssa.Range:
							touch = derived[w.X]
						case *ssa.MapUpdate:
							touch, write = derived[w.Map], true
						case *ssa.Call:
							if bi, ok := w.Call.Value.(*ssa.Builtin); ok {
								switch bi.Name() {
								case "append":
									for _, a := range w.Call.Args[1:] {
										if derived[a] {
											touch = true
										}
									}
									if derived[w.Call.Args[0]] {
										touch, write = true, true
									}
								case "copy":
									if derived[w.Call.Args[0]] {
										touch, write = true, true
									}
									if derived[w.Call.Args[1]] {
										touch = true
									}
								case "delete", "clear":
									if derived[w.Call.Args[0]] {
										touch, write = true, true
									}
								}
							}
						}
						if !touch || held[i2].holds(lock, write) {
							continue
						}
						// reachable from the load without a detaching store in between?
						hit, path := reachAvoiding(fn, ld, func(i ssa.Instruction) bool { return i == i2 }, detaches, nil)
						if hit == nil {
							continue
						}
						key := fkey + " alias in " + name
						if bad[key] == nil {
							bad[key] = &finding{pos: p.Pos(i2.Pos()), where: name, path: blocksString(p, path)}
						}
					}
				}
			}
		}
	}
	var fkeys []string
	for k := range seenField {
		fkeys = append(fkeys, k)
	}
	sort.Strings(fkeys)
	for _, fk := range fkeys {
		var hits []string
		var first *finding
		for k, f := range bad {
			if strings.HasPrefix(k, fk+" alias in ") {
				hits = append(hits, f.where)
				if first == nil || f.pos < first.pos {
					first = f
				}
			}
		}
		sort.Strings(hits)
		if first == nil {
			r.Check(rule+"-alias", fk+": its elements are only accessed through a local copy of the header while "+tbl.guards[fk]+" is held (or after the field was swapped out)", true, "-", "")
		} else {
			r.Check(rule+"-alias", fk+": its elements are only accessed through a local copy of the header while "+tbl.guards[fk]+" is held (or after the field was swapped out)", false, first.pos,
				"the slice/map header read under the lock shares its storage with the field, the field keeps that storage, and the elements are accessed after the lock was dropped, in: "+strings.Join(hits, ", ")+" - a concurrent holder of the lock overwrites or reads the same elements", first.path...)
		}
	}
	r.Counts[rule+"-alias container headers read from guarded fields"] = nAlias
}
