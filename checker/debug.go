package main

import (
	"fmt"
	"os"
	"sort"
	"strings"

	"golang.org/x/tools/go/ssa"
)

// debugExplore runs the bare explorer on a function and prints statistics.
func debugExplore(repo, spec string) {
	p, err := loadProg(repo, "amd64")
	if err != nil {
		fmt.Println(err)
		os.Exit(3)
	}
	fn := p.Func(spec)
	if fn == nil {
		fmt.Println("not found", spec)
		os.Exit(3)
	}
	x := NewExplorer(p, fn, Hooks{})
	x.Debug = true
	x.MaxStates = 2000000
	if os.Getenv("VDBG_FILTER") != "" {
		x.Filter = noConfigFilter
	}
	x.Run(nil)
	type bc struct{ b, n int }
	var bcs []bc
	for b, m := range x.DbgKeys {
		bcs = append(bcs, bc{b, m["#states"]})
	}
	sort.Slice(bcs, func(i, j int) bool { return bcs[i].n > bcs[j].n })
	for i := 0; i < 3 && i < len(bcs); i++ {
		fmt.Printf("block %d: %d states; varying facts:\n", bcs[i].b, bcs[i].n)
		var ks []string
		for k, n := range x.DbgKeys[bcs[i].b] {
			ks = append(ks, fmt.Sprintf("   %6d %s", n, k))
		}
		sort.Strings(ks)
		fmt.Println(strings.Join(ks, "\n"))
	}
	fmt.Printf("%s: blocks=%d states=%d edges=%d aborted=%v\n", spec, len(fn.Blocks), x.States, x.Edges, x.Aborted)
	var ks []string
	for k, n := range x.track {
		if n >= 2 {
			ks = append(ks, k)
		}
	}
	sort.Strings(ks)
	fmt.Printf("tracked keys (%d):\n  %s\n", len(ks), strings.Join(ks, "\n  "))
}

// noConfigFilter drops facts about configuration fields of the receiver/parameters
// (write-once options such as s.ReadTimeout) and about integer comparisons.
func noConfigFilter(k string) bool {
	if strings.Contains(k, "*(p:") && !strings.Contains(k, "*(*(") {
		return false
	}
	if strings.Contains(k, " < ") || strings.Contains(k, " <= ") || strings.Contains(k, "c:\"") {
		return false
	}
	return true
}

// noIntFilter keeps boolean / nil-ness facts about configuration fields but
// drops numeric comparisons.
func noIntFilter(k string) bool {
	if strings.Contains(k, " < ") || strings.Contains(k, " <= ") || strings.Contains(k, "c:\"") {
		return false
	}
	return true
}

// discoverLocks prints, for every struct field of the module that is accessed at
// least once while some mutex is held, how often it is accessed under which
// lock and how often without any (development aid for building the frozen
// guarded-by table of C37; Engler-style statistics, confirmed by reading).
func discoverLocks(repo string) {
	p, err := loadProg(repo, "amd64")
	if err != nil {
		fmt.Println(err)
		os.Exit(3)
	}
	type stat struct {
		under map[string]int
		none  int
		fns   map[string]bool
	}
	stats := map[string]*stat{}
	for _, fn := range p.SrcFuncs() {
		held := heldAt(fn, heldSet{}, nil)
		for _, b := range fn.Blocks {
			for _, ins := range b.Instrs {
				var fa *ssa.FieldAddr
				switch w := ins.(type) {
				case *ssa.Store:
					fa, _ = w.Addr.(*ssa.FieldAddr)
				case *ssa.UnOp:
					fa, _ = w.X.(*ssa.FieldAddr)
				}
				if fa == nil {
					continue
				}
				if al, ok := fa.X.(*ssa.Alloc); ok && al.Parent() == fn {
					continue
				}
				k := typeNameOf(fa.X) + "." + fieldName(fa.X.Type(), fa.Field)
				s := stats[k]
				if s == nil {
					s = &stat{under: map[string]int{}, fns: map[string]bool{}}
					stats[k] = s
				}
				h := held[ins]
				if len(h) == 0 {
					s.none++
					s.fns[funcName(fn)] = true
				}
				for l := range h {
					s.under[strings.TrimSuffix(l, ":r")]++
				}
			}
		}
	}
	var ks []string
	for k, s := range stats {
		if len(s.under) > 0 {
			ks = append(ks, k)
		}
	}
	sort.Strings(ks)
	for _, k := range ks {
		s := stats[k]
		var fl []string
		for f := range s.fns {
			fl = append(fl, f)
		}
		sort.Strings(fl)
		fmt.Printf("%-45s under=%v none=%d %v\n", k, s.under, s.none, fl)
	}
}
