package main

// C05 / C06 - caller-supplied strings cannot inject header lines or cookie
// attributes: every value stored into serialised header / cookie storage is
// clean for the required neutraliser classes (E5).

import (
	"fmt"
	"go/token"
	"go/types"
	"sort"
	"strings"

	"golang.org/x/tools/go/ssa"
)

func init() {
	register(&propDef{
		id:      "C05",
		explain: "Structural necessary condition of 'setters cannot inject header lines': every value that can be stored into the serialised storage of RequestHeader / ResponseHeader (dedicated byte-slice fields, header field keys and values, cookies, trailers) is clean for CR/LF on every way it can be produced: a constant, a numeric/date formatter result, the result of (or a buffer passed in place through) the CR/LF neutraliser or a helper that applies it on every path, content of another checked storage field, or - for unexported helpers - clean at every call site. Exported parameters are the taint sources. The neutraliser's shape is re-checked on every run. Parse paths (bytes taken from the wire by the header scanner) are outside this rule. (R-proxy) every string parameter that the HTTP-proxy dialer writes into its CONNECT request is tested as a whole for CR and LF on the way to the write (the 'found' outcome leaves the function), or is a base64 encoding at every call site. Not decided: that a peer sees exactly one message (spaces in method/URI, ':' in names, non-ASCII), documented caller-canonical keys of SetCanonical.",
		run: func(p *Prog, r *Report) {
			runTaintProp(p, r, "C05")
			proxyTargetWholeTested(p, r)
		},
	})
	register(&propDef{
		id:      "C06",
		explain: "Structural necessary condition of 'cookie setters cannot inject attributes or header lines': every value stored into the byte-slice fields of Cookie, and every key/value stored into the request cookie list of RequestHeader, is clean for both CR/LF and ';' on every way it can be produced (constants, formatter results, results of the two neutralisers or of helpers applying them on every path, clean arguments at every call site of unexported helpers); a value that passes a decoding/normalising step after the neutraliser is not clean. Exported parameters are the sources. (R-out) the cookie scanners assign every out-parameter on every path that reports a pair; (R-scratch) no function uses the old content or length of a scratch buffer (bufK / bufV), so a serialised attribute - the formatted expiry date - is always computed from the attribute as it is now. (R-attr) in the response-cookie parser every attribute branch writes one field of the Cookie, directly or through callees (may-write sets), so parsing one attribute never overwrites another - a producing-side setter with side effects must not be used there. Not decided: round-trip equality, attribute combinations, expiry precision; the parse side (wire bytes) is outside the taint rule.",
		run: func(p *Prog, r *Report) {
			runTaintProp(p, r, "C06")
			cookieParserOneFieldPerAttribute(p, r)
		},
	})
}

var headerOwnerTypes = map[string]bool{"header": true, "RequestHeader": true, "ResponseHeader": true}

func isByteSlice(t types.Type) bool {
	s, ok := t.Underlying().(*types.Slice)
	if !ok {
		return false
	}
	b, ok := s.Elem().Underlying().(*types.Basic)
	return ok && b.Kind() == types.Byte
}

func isByteSliceSlice(t types.Type) bool {
	s, ok := t.Underlying().(*types.Slice)
	return ok && isByteSlice(s.Elem())
}

type sinkSite struct {
	what    string
	v       ssa.Value
	at      ssa.Instruction
	classes []taintClass
}

func runTaintProp(p *Prog, r *Report, prop string) {
	t := newTaint(p)
	t.trustedParam["(*ResponseHeader).SetCanonical#1"] = "documented precondition: 'assuming that key is in canonical form'"
	t.trustedParam["(*RequestHeader).SetCanonical#1"] = "documented precondition: 'assuming that key is in canonical form'"
	for _, f := range []string{"HostClient.Name", "pipelineConnClient.Name", "PipelineClient.Name", "Client.Name"} {
		t.trustedField[f] = "client configuration set once by the application (default User-Agent), not a per-message setter argument; outside the property's quantifier"
	}
	if len(t.sanitiser) < 2 {
		r.Undecided("E5", "neutralisers removeNewLines / removeSemicolons", "not found")
		return
	}
	t.checkSanitiserShapes(r, "E5")
	t.checkSanitiserScan(r, "E5-scan")
	scratch := map[string]bool{"bufK": true, "bufV": true, "mulHeader": true}
	kvWriters := map[string]bool{"setArg": true, "setArgBytes": true, "appendArg": true, "appendArgBytes": true}
	// sink fields (clean by induction)
	for _, typ := range []string{"header", "RequestHeader", "ResponseHeader", "Cookie"} {
		nt := p.NamedType(typ)
		if nt == nil {
			r.Undecided("E5", "type "+typ, "not found")
			return
		}
		for _, f := range structFields(nt) {
			if (isByteSlice(f.Type()) || isByteSliceSlice(f.Type())) && !scratch[f.Name()] {
				t.sinkField[typ+"."+f.Name()] = true
			}
		}
	}
	var sinks []sinkSite
	wantCls := func(owner, field string, cookieList bool) []taintClass {
		switch prop {
		case "C05":
			if owner == "Cookie" {
				return nil
			}
			return []taintClass{clsCRLF}
		case "C06":
			if owner == "Cookie" || cookieList {
				return []taintClass{clsCRLF, clsSEMI}
			}
		}
		return nil
	}
	for _, fn := range p.funcsIn("") {
		rt := recvTypeName(fn)
		for _, b := range fn.Blocks {
			for _, in := range b.Instrs {
				switch w := in.(type) {
				case *ssa.Store:
					fa, ok := w.Addr.(*ssa.FieldAddr)
					if !ok {
						continue
					}
					owner := typeNameOf(fa.X)
					field := fieldName(fa.X.Type(), fa.Field)
					switch {
					case t.sinkField[owner+"."+field]:
						// an intermediate value that is always overwritten before the function returns is not observable
						path, root := fieldPath(fa), rootOf(fa)
						overwritten := func(i2 ssa.Instruction) bool {
							s2, ok := i2.(*ssa.Store)
							if !ok || s2 == w {
								return false
							}
							fa2, ok := s2.Addr.(*ssa.FieldAddr)
							return ok && fieldPath(fa2) == path && rootOf(fa2) == root
						}
						if hit, _ := reachAvoiding(fn, w, isReturn, overwritten, nil); hit == nil {
							continue
						}
						if cls := wantCls(owner, field, false); cls != nil {
							sinks = append(sinks, sinkSite{fmt.Sprintf("store to %s.%s in %s", owner, field, funcName(fn)), w.Val, in, cls})
						}
					case owner == "argsKV" && (field == "key" || field == "value") && (headerOwnerTypes[rt] || rt == "Cookie"):
						// manual element fill inside a header method (cookie list of the response header etc.)
						if cls := wantCls(rt, field, strings.Contains(strings.ToLower(funcName(fn)), "cookie")); cls != nil {
							sinks = append(sinks, sinkSite{fmt.Sprintf("store to element %s in %s", field, funcName(fn)), w.Val, in, cls})
						}
					}
				case *ssa.Call:
					f := w.Call.StaticCallee()
					if f == nil || !kvWriters[f.Name()] || f.Signature.Recv() != nil || len(w.Call.Args) < 3 {
						continue
					}
					_, fv := loadedField(w.Call.Args[0])
					base, _ := loadedField(w.Call.Args[0])
					if fv == nil || base == nil || !headerOwnerTypes[typeNameOf(base)] {
						continue
					}
					cookieList := fv.Name() == "cookies"
					if cls := wantCls(typeNameOf(base), fv.Name(), cookieList && (typeNameOf(base) == "RequestHeader" || rt == "RequestHeader")); cls != nil {
						sinks = append(sinks, sinkSite{fmt.Sprintf("key given to %s(%s.%s) in %s", f.Name(), typeNameOf(base), fv.Name(), funcName(fn)), w.Call.Args[1], in, cls})
						sinks = append(sinks, sinkSite{fmt.Sprintf("value given to %s(%s.%s) in %s", f.Name(), typeNameOf(base), fv.Name(), funcName(fn)), w.Call.Args[2], in, cls})
					}
				}
			}
		}
	}
	// evaluate
	type res struct {
		ok  bool
		why string
		pos string
		n   int
	}
	out := map[string]*res{}
	for _, s := range sinks {
		if wirePath(s.at.Parent()) {
			continue
		}
		for _, cls := range s.classes {
			key := s.what + " is " + string(cls) + "-clean"
			ok, why := t.clean(s.v, s.at, cls, 0)
			e := out[key]
			if e == nil {
				e = &res{ok: true}
				out[key] = e
			}
			e.n++
			if !ok && e.ok {
				e.ok = false
				e.why = why
				e.pos = p.Pos(s.at.Pos())
			}
			if e.pos == "" {
				e.pos = p.Pos(s.at.Pos())
			}
		}
	}
	keys := make([]string, 0, len(out))
	for k := range out {
		keys = append(keys, k)
	}
	sort.Strings(keys)
	for _, k := range keys {
		e := out[k]
		r.Check("E5", k, e.ok, e.pos, "a way to produce this value does not pass the neutraliser: "+e.why)
	}
	floor := 60
	if prop == "C06" {
		floor = 12
	}
	r.Floor("E5", "sink obligations", len(keys), floor)
	r.Counts["E5 sink sites found"] = len(sinks)
	for k, why := range t.trustedField {
		r.Note("E5 trusted configuration field %s: %s", k, why)
	}
	for k, why := range t.trustedParam {
		r.Note("E5 trusted parameter %s: %s", k, why)
	}
	if prop == "C06" {
		scannerOutParams(p, r)
		// what a Cookie serialises is computed from its attributes at that moment: the scratch buffers it formats
		// dates and keys into are never used as a cache of an earlier formatting
		scratchPremiseRule(p, r, "R-scratch")
	}
}

// scannerOutParams (C06.R-out): the cookie scanners hand their result back
// through pointer parameters that the callers point at *reused* storage (an
// argsKV slot from allocArg keeps the bytes of its previous use). A pair is
// reported by returning true, so on every path to a true return each
// out-parameter must have been assigned - otherwise the caller sees the key or
// value of an earlier cookie under the new one.
func scannerOutParams(p *Prog, r *Report) {
	n := 0
	for _, fn := range p.funcsIn("") {
		if recvTypeName(fn) != "cookieScanner" || fn.Signature.Results().Len() != 1 || !isBool(fn.Signature.Results().At(0).Type()) {
			continue
		}
		var outs []*ssa.Parameter
		for _, prm := range fn.Params[1:] {
			if pt, ok := prm.Type().Underlying().(*types.Pointer); ok {
				if _, isSlice := pt.Elem().Underlying().(*types.Slice); isSlice {
					outs = append(outs, prm)
				}
			}
		}
		if len(outs) == 0 {
			continue
		}
		n++
		bad, nret := 0, 0
		var wit []string
		detail := ""
		x := NewExplorer(p, fn, Hooks{
			Instr: func(x *Explorer, st *State, in ssa.Instruction) {
				if s, ok := in.(*ssa.Store); ok {
					for i, o := range outs {
						if s.Addr == ssa.Value(o) {
							st.Set(1 << uint(i))
						}
					}
				}
			},
			Exit: func(x *Explorer, st *State, ret *ssa.Return, pan *ssa.Panic) {
				if ret == nil {
					return
				}
				rr := returnResults(ret)
				if len(rr) != 1 || x.Eval(st, rr[0]) == False {
					return
				}
				nret++
				for i, o := range outs {
					if !st.Has(1 << uint(i)) {
						bad++
						if wit == nil {
							wit = x.Path(st)
							detail = "*" + o.Name() + " is not assigned on this path"
						}
					}
				}
			},
		})
		x.TrackAll = true
		x.Filter = noIntFilter
		x.Run(nil)
		if x.Aborted {
			r.Undecided("R-out", funcName(fn), "state budget exhausted")
			continue
		}
		r.Check("R-out", fmt.Sprintf("%s: every out-parameter is assigned on every path that reports a pair", funcName(fn)), bad == 0 && nret > 0, p.Pos(fn.Pos()),
			fmt.Sprintf("%s (%d unassigned arrivals at %d explored reporting returns): the caller's reused slot keeps the bytes of an earlier cookie, which the server then sees under this one", detail, bad, nret), wit...)
	}
	r.Floor("R-out", "cookie scanner methods with slice out-parameters", n, 2)
}

// wirePath: functions that fill header storage from bytes read off the wire
// (decided by role: they use a headerScanner or are the first-line / trailer
// parsers). Their values are not caller-supplied setter arguments.
func wirePath(fn *ssa.Function) bool {
	if fn == nil {
		return false
	}
	n := fn.Name()
	if strings.HasPrefix(n, "parse") || strings.HasPrefix(n, "tryRead") || n == "collectCookies" {
		return true
	}
	for _, b := range fn.Blocks {
		for _, in := range b.Instrs {
			if a, ok := in.(*ssa.Alloc); ok && strings.HasSuffix(a.Type().String(), "headerScanner") {
				return true
			}
		}
	}
	return false
}

// cookieParserOneFieldPerAttribute (C06.R-attr): a parsed Set-Cookie header
// must give back exactly the attributes that were set. In the response-cookie
// parser every attribute branch (the region entered when the scanned name or
// flag compared equal to one attribute constant) writes one field of the
// Cookie - directly or through callees. A branch that goes through a
// producing-side setter with side effects (SetPartitioned also forces Secure
// and Path) overwrites attributes that were parsed before it.
func cookieParserOneFieldPerAttribute(p *Prog, r *Report) {
	fn := p.Func("(*Cookie).ParseBytes")
	cic := p.Func("caseInsensitiveCompare")
	if fn == nil || cic == nil {
		r.Undecided("R-attr", "Cookie.ParseBytes / caseInsensitiveCompare", "not found")
		return
	}
	scratch := map[string]bool{"buf": true, "bufK": true, "bufV": true}
	mi := p.modInfo()
	cookieFields := map[*types.Var]bool{}
	if st := structOf(fn.Params[0].Type()); st != nil {
		for i := 0; i < st.NumFields(); i++ {
			cookieFields[st.Field(i)] = true
		}
	}
	n := 0
	for _, b := range fn.Blocks {
		if len(b.Preds) != 1 {
			continue
		}
		pr := b.Preds[0]
		iff, ok := pr.Instrs[len(pr.Instrs)-1].(*ssa.If)
		if !ok || pr.Succs[0] != b {
			continue
		}
		cv, ok := iff.Cond.(*ssa.Call)
		if !ok || cv.Call.StaticCallee() != cic {
			continue
		}
		name := ""
		for _, a := range cv.Call.Args {
			if g := globalOf(a); strings.HasPrefix(g, "strCookie") {
				name = g
			}
		}
		if name == "" {
			continue
		}
		// the region of this attribute: blocks dominated by b, up to nested attribute-value tests (SameSite modes are
		// still the same field)
		fields := map[string]bool{}
		for _, bb := range fn.Blocks {
			if bb != b && !b.Dominates(bb) {
				continue
			}
			for _, in := range bb.Instrs {
				switch w := in.(type) {
				case *ssa.Store:
					if fa, ok := w.Addr.(*ssa.FieldAddr); ok && typeNameOf(fa.X) == "Cookie" {
						fields[fieldName(fa.X.Type(), fa.Field)] = true
					}
				case ssa.CallInstruction:
					callee := w.Common().StaticCallee()
					if callee == nil || !inModule(callee) {
						continue
					}
					for fv := range mi.of(callee) {
						if cookieFields[fv] {
							fields[fv.Name()] = true
						}
					}
				}
			}
		}
		for f := range fields {
			if scratch[f] {
				delete(fields, f)
			}
		}
		n++
		r.Check("R-attr", fmt.Sprintf("Cookie.ParseBytes: the branch of attribute %s writes one attribute field", name), len(fields) <= 1, p.Pos(iff.Pos()),
			"fields written under this attribute: "+joinSorted(fields)+" - parsing this attribute also overwrites other attributes of the cookie (a producing-side setter with side effects is used by the parser), so the header does not parse back with the attributes that were set")
	}
	r.Floor("R-attr", "attribute branches of the response-cookie parser", n, 8)
}

// proxyTargetWholeTested (C05.R-proxy): the HTTP-proxy dialer writes the CONNECT request by concatenating strings.
// Every string parameter that flows into the bytes written to the proxy is, on every path to the write, tested as a
// whole for CR and LF (strings.ContainsAny / IndexAny on the parameter itself, with a constant set holding both, the
// "found" outcome leaving the function) - or every caller in the module passes a base64 encoding. A test of only a
// part of the string (the host part, say) lets a line break in the rest end the message early.
func proxyTargetWholeTested(p *Prog, r *Report) {
	var fn *ssa.Function
	for _, f := range p.funcsIn("fasthttpproxy") {
		for _, b := range f.Blocks {
			for _, in := range b.Instrs {
				if bo, ok := in.(*ssa.BinOp); ok && bo.Op == token.ADD {
					if s, ok := stringConst(bo.X); ok && strings.HasPrefix(s, "CONNECT ") {
						fn = f
					}
				}
			}
		}
	}
	if fn == nil {
		r.Undecided("R-proxy", "fasthttpproxy: the function that builds the CONNECT request", "not found")
		return
	}
	// the write: an invoke of Write on a net.Conn
	var write ssa.Instruction
	var written ssa.Value
	allCalls(fn, func(b *ssa.BasicBlock, c ssa.CallInstruction) {
		if c.Common().IsInvoke() && c.Common().Method.Name() == "Write" && len(c.Common().Args) == 1 {
			write, written = c, c.Common().Args[0]
		}
	})
	if write == nil {
		r.Undecided("R-proxy", funcName(fn)+": write of the request", "not found")
		return
	}
	n := 0
	for _, prm := range fn.Params {
		if bt, ok := prm.Type().Underlying().(*types.Basic); !ok || bt.Kind() != types.String {
			continue
		}
		if !derivesFromValue(written, prm) {
			continue
		}
		n++
		// whole-string test that dominates the write on its "not found" side
		tested := false
		for _, b := range fn.Blocks {
			for _, in := range b.Instrs {
				c, ok := in.(*ssa.Call)
				if !ok || c.Call.StaticCallee() == nil || c.Call.StaticCallee().Pkg == nil || c.Call.StaticCallee().Pkg.Pkg.Path() != "strings" || len(c.Call.Args) != 2 {
					continue
				}
				nm := c.Call.StaticCallee().Name()
				if nm != "ContainsAny" && nm != "IndexAny" {
					continue
				}
				if c.Call.Args[0] != ssa.Value(prm) {
					continue
				}
				set, ok := stringConst(c.Call.Args[1])
				if !ok || !strings.Contains(set, "\r") || !strings.Contains(set, "\n") {
					continue
				}
				// the write is not reachable from the call without passing its branch on the "clean" side: the found side returns
				for _, g := range guardsOfDepth(write.Block(), 0) {
					if g.Cond == ssa.Value(c) && !g.Pol {
						tested = true
					}
					if bo, ok := g.Cond.(*ssa.BinOp); ok && bo.X == ssa.Value(c) {
						tested = true
					}
				}
			}
		}
		if !tested {
			// produced by the callers as a base64 encoding?
			allB64, ncall := true, 0
			idx := -1
			for i, q := range fn.Params {
				if q == prm {
					idx = i
				}
			}
			var callers []*ssa.Function
			for _, top := range p.funcsIn("fasthttpproxy") {
				callers = append(callers, funcAndClosures(top)...)
			}
			callersAndAll := callers
			for _, caller := range callers {
				allCalls(caller, func(b *ssa.BasicBlock, c ssa.CallInstruction) {
					if c.Common().StaticCallee() != fn || idx >= len(c.Common().Args) {
						return
					}
					ncall++
					// every way the value can be produced is a base64 encoding or a CR/LF-free constant
					seen := map[ssa.Value]bool{}
					var safe func(v ssa.Value, d int) bool
					safe = func(v ssa.Value, d int) bool {
						if v == nil || d > 10 {
							return false
						}
						if seen[v] {
							return true
						}
						seen[v] = true
						switch w := v.(type) {
						case *ssa.Const:
							s, isS := stringConst(w)
							return isS && !strings.ContainsAny(s, "\r\n")
						case *ssa.Call:
							f := w.Call.StaticCallee()
							if f == nil {
								return false
							}
							if f.Pkg != nil && f.Pkg.Pkg.Path() == "encoding/base64" {
								return true
							}
							return false
						case *ssa.Extract:
							c, isCall := w.Tuple.(*ssa.Call)
							if !isCall || c.Call.StaticCallee() == nil || !inModule(c.Call.StaticCallee()) || c.Call.StaticCallee().Blocks == nil {
								return false
							}
							for _, rb := range c.Call.StaticCallee().Blocks {
								if rt, isRet := rb.Instrs[len(rb.Instrs)-1].(*ssa.Return); isRet {
									if w.Index >= len(rt.Results) || !safe(rt.Results[w.Index], d+1) {
										return false
									}
								}
							}
							return true
						case *ssa.Phi:
							for _, e := range w.Edges {
								if !safe(e, d+1) {
									return false
								}
							}
							return true
						case *ssa.FreeVar:
							// captured from the enclosing function: what every closure creation binds to it
							cf := w.Parent()
							par := cf.Parent()
							if par == nil {
								return false
							}
							idxFV := -1
							for i, fv := range cf.FreeVars {
								if fv == w {
									idxFV = i
								}
							}
							nb := 0
							for _, pb := range par.Blocks {
								for _, pi := range pb.Instrs {
									if mc, isMC := pi.(*ssa.MakeClosure); isMC && mc.Fn == ssa.Value(cf) && idxFV >= 0 && idxFV < len(mc.Bindings) {
										nb++
										if !safe(mc.Bindings[idxFV], d+1) {
											return false
										}
									}
								}
							}
							return nb > 0
						case *ssa.Alloc:
							// a captured variable: every value stored into it
							nst := 0
							for _, ref := range *w.Referrers() {
								if st, isSt := ref.(*ssa.Store); isSt && st.Addr == ssa.Value(w) {
									nst++
									if !safe(st.Val, d+1) {
										return false
									}
								}
							}
							return nst > 0
						case *ssa.UnOp:
							if w.Op == token.MUL {
								switch w.X.(type) {
								case *ssa.FreeVar, *ssa.Alloc:
									return safe(w.X, d+1)
								}
							}
							// a field: every value stored there
							fa, isFA := w.X.(*ssa.FieldAddr)
							if !isFA || w.Op != token.MUL {
								return false
							}
							fv := fieldVar(fa.X.Type(), fa.Field)
							nst := 0
							for _, g := range callersAndAll {
								for _, gb := range g.Blocks {
									for _, gi := range gb.Instrs {
										if st, isSt := gi.(*ssa.Store); isSt {
											if fa2, ok2 := st.Addr.(*ssa.FieldAddr); ok2 && fieldVar(fa2.X.Type(), fa2.Field) == fv {
												nst++
												if !safe(st.Val, d+1) {
													return false
												}
											}
										}
									}
								}
							}
							return nst > 0
						}
						return false
					}
					ok := safe(c.Common().Args[idx], 0)
					if !ok {
						allB64 = false
					}
				})
			}
			tested = ncall > 0 && allB64
		}
		r.Check("R-proxy", fmt.Sprintf("%s: parameter %s, which is written to the proxy, is tested as a whole for CR/LF (or is a base64 encoding at every call)", funcName(fn), prm.Name()), tested, p.Pos(write.Pos()),
			"the string reaches the CONNECT request without a CR/LF test of the whole string: a line break in the untested part ends the CONNECT message early and what follows is read by the proxy as a second, caller-chosen request")
	}
	r.Floor("R-proxy", "string parameters written into the CONNECT request", n, 1)
}
