package main

// C24 - byte ranges and validators in the FS handler.

import (
	"fmt"
	"go/token"
	"go/types"
	"strings"

	"golang.org/x/tools/go/ssa"
)

func init() {
	register(&propDef{
		id:      "C24",
		explain: "Structural necessary conditions of 'range requests yield exactly the requested bytes or a proper refusal': (E10) on every acyclic path of ParseByteRange (decided in the zone abstract domain, with the post-condition 'ParseUint returns a non-negative value when its error is nil'), every success return satisfies 0 <= startPos <= endPos < contentLength; (R2) in the FS handler a ParseByteRange error leads, on every path, to the reader being closed and a 416 answer; success leads to UpdateByteRange and SetContentRange being called with the parsed positions and to status 206; a failed UpdateByteRange closes the reader; (R3) not-modified and HEAD branches give the reader back (decrement / close) before returning; (R-pool) a pooled file reader is re-armed before it goes back to its pool: every field that UpdateByteRange sets and Read/WriteTo consult is re-assigned by Close on every path; (R-enc) every assignment of Content-Encoding in the FS handler is control-dependent on the opened file's own compressed flag (fasthttp may decline to compress a file although the request negotiated it); (R-fresh) an on-disk compressed copy that already existed is opened only after its modification time was compared with the original's, unless the same path has just written it; (R-stamp) where a created file is stamped with the original's modification time (os.Chtimes), the stamp is reached only after that file was closed - a later write would reset it; (R-bound) a reader that serves the window [startPos, endPos) of a file through ReadAt never asks for more than the window holds: on every path to every ReadAt call - from the function entry, or from the head of the enclosing loop with the loop variables unconstrained, so the bound has to be re-established in every iteration - the length of the buffer handed over is at most endPos minus the offset handed over (zone domain). (R-clamp) in ParseByteRange only the first position's parse failure reaches an error return without the digits-only test of the token - a last position or suffix length beyond MaxInt is clamped; (R-sym) the mod times of a file and of its compressed copy are compared in one routine, and on every path on which it reports 'not stale' the difference-bound domain entails -1s < d < 1s - both directions. Not decided: the bytes served, the sub-second tolerance itself, date comparison to the second.",
		run:     runC24,
	})
}

func runC24(p *Prog, r *Report) {
	fn := p.Func("ParseByteRange")
	pu := p.Func("ParseUint")
	if fn == nil || pu == nil {
		r.Undecided("E10", "anchors ParseByteRange / ParseUint", "not found")
	} else {
		var clParam *ssa.Parameter
		for _, prm := range fn.Params {
			if isIntType(prm.Type()) {
				clParam = prm
			}
		}
		res := checkZoneFunction(p, fn, map[*ssa.Function]bool{pu: true},
			func(rt *ssa.Return) bool {
				rr := returnResults(rt)
				return len(rr) == 3 && isNilConst(rr[2])
			},
			func(z *zone, rt *ssa.Return) (bool, string) {
				rr := returnResults(rt)
				s, os := z.term(rr[0])
				e, oe := z.term(rr[1])
				c, oc := z.term(clParam)
				var miss []string
				if !z.entails(0, 0, s, os, 0) {
					miss = append(miss, "0 <= startPos")
				}
				if !z.entails(s, os, e, oe, 0) {
					miss = append(miss, "startPos <= endPos")
				}
				if !z.entails(e, oe, c, oc, -1) {
					miss = append(miss, "endPos < contentLength")
				}
				return len(miss) == 0, "not entailed at this return: " + strings.Join(miss, ", ")
			})
		switch {
		case res.undecided != "":
			r.Undecided("E10", "ParseByteRange", res.undecided)
		default:
			r.Counts["E10 ParseByteRange acyclic paths"] = res.paths
			r.Check("E10", "every success return of ParseByteRange satisfies 0 <= startPos <= endPos < contentLength", res.bad == 0 && res.successReturns > 0, p.Pos(fn.Pos()),
				fmt.Sprintf("%d of %d success-return paths: %s", res.bad, res.successReturns, res.detail), res.witness...)
		}
		// the post-condition used above: ParseUint's success returns come from parseUintBuf's accumulator (checked by C30's guard rule) - recorded as assumption
		r.Note("E10 uses the post-condition 'ParseUint(...) >= 0 when err == nil' (ParseUint returns -1 only together with an error; the accumulator guard is C30's obligation)")
	}

	// ---- handler branches ----
	h := p.Func("(*fsHandler).handleRequest")
	if h == nil {
		r.Undecided("R2", "(*fsHandler).handleRequest", "not found")
	} else {
		var pcall *ssa.Call
		allCalls(h, func(b *ssa.BasicBlock, c ssa.CallInstruction) {
			if cv, ok := c.(*ssa.Call); ok && isCallTo(cv, fn) {
				pcall = cv
			}
		})
		if pcall == nil {
			r.Undecided("R2", "handleRequest: ParseByteRange call", "not found")
		} else {
			var perr, start, end ssa.Value
			for _, ref := range *pcall.Referrers() {
				if ex, ok := ref.(*ssa.Extract); ok {
					switch ex.Index {
					case 0:
						start = ex
					case 1:
						end = ex
					case 2:
						perr = ex
					}
				}
			}
			const (
				bParsed uint64 = 1 << iota
				bClosed
				b416
				bUpdated
				bRanged
				b206
			)
			type tal struct {
				n, bad int
				wit    []string
			}
			obs := map[string]*tal{}
			note := func(x *Explorer, st *State, key string, ok bool) {
				t := obs[key]
				if t == nil {
					t = &tal{}
					obs[key] = t
				}
				t.n++
				if !ok {
					t.bad++
					if t.wit == nil {
						t.wit = x.Path(st)
					}
				}
			}
			x := NewExplorer(p, h, Hooks{
				Instr: func(x *Explorer, st *State, in ssa.Instruction) {
					switch w := in.(type) {
					case *ssa.Call:
						if w == pcall {
							st.Set(bParsed)
						}
						if !st.Has(bParsed) {
							return
						}
						switch {
						case isInvoke(w, "Close"):
							st.Set(bClosed)
						case isInvoke(w, "UpdateByteRange"):
							if len(w.Call.Args) == 2 && w.Call.Args[0] == start && w.Call.Args[1] == end {
								st.Set(bUpdated)
							}
						default:
							if f := w.Call.StaticCallee(); f != nil {
								switch f.Name() {
								case "Error":
									if len(w.Call.Args) >= 3 {
										if k, ok := constInt(w.Call.Args[2]); ok && k == 416 {
											st.Set(b416)
										}
									}
								case "SetContentRange":
									if len(w.Call.Args) >= 3 && w.Call.Args[1] == start && w.Call.Args[2] == end {
										st.Set(bRanged)
									}
								case "SetStatusCode":
									// status variable is a phi; accept the store of 206 seen through the phi operand below
								}
							}
						}
					}
				},
				Exit: func(x *Explorer, st *State, ret *ssa.Return, pan *ssa.Panic) {
					if ret == nil || !st.Has(bParsed) || perr == nil {
						return
					}
					switch x.Eval(st, perr) {
					case True:
						note(x, st, "a range that cannot be parsed or satisfied closes the reader and is answered 416", st.Has(bClosed) && st.Has(b416))
					case False:
						// success: either served as a range, or UpdateByteRange failed and the reader was closed
						note(x, st, "a parsed range is applied to the reader with the parsed positions", st.Has(bUpdated))
						note(x, st, "a parsed range is announced with the parsed positions (or the reader is closed on failure)", st.Has(bRanged) || st.Has(bClosed))
					}
				},
			})
			x.Filter = noIntFilter
			if perr != nil {
				x.Track(perr)
			}
			x.MaxStates = 1500000
			x.Run(nil)
			if x.Aborted {
				r.Undecided("R2", "handleRequest exploration", "state budget exhausted")
			}
			for _, k := range sortedKeys(obs) {
				t := obs[k]
				r.Check("R2", "fsHandler.handleRequest: "+k, t.bad == 0, p.Pos(pcall.Pos()), fmt.Sprintf("%d of %d explored returns violate it", t.bad, t.n), t.wit...)
			}
			r.Floor("R2", "range obligations reached in handleRequest", len(obs), 3)
			// 206 is the status stored on the range path
			has206 := false
			for _, b := range h.Blocks {
				for _, in := range b.Instrs {
					if ph, ok := in.(*ssa.Phi); ok {
						for _, e := range ph.Edges {
							if k, okc := constInt(e); okc && k == 206 {
								has206 = true
							}
						}
					}
				}
			}
			r.Check("R2", "fsHandler.handleRequest: the range path selects status 206", has206, p.Pos(h.Pos()), "no status value 206 flows into the response status")
		}
	}

	// ---- R-pool ----
	n := 0
	for _, typ := range []string{"bigFileReader", "fsSmallFileReader"} {
		upd := p.Func("(*" + typ + ").UpdateByteRange")
		cls := p.Func("(*" + typ + ").Close")
		if upd == nil || cls == nil {
			r.Undecided("R-pool", typ, "UpdateByteRange / Close not found")
			continue
		}
		written := map[string]bool{}
		for _, b := range upd.Blocks {
			for _, in := range b.Instrs {
				if st, ok := in.(*ssa.Store); ok {
					if pth, ok := pathFromParam(st.Addr, upd.Params[0]); ok && pth != "" {
						written[strings.SplitN(pth, ".", 2)[0]] = true
					}
				}
			}
		}
		read := map[string]bool{}
		for _, m := range []string{"Read", "WriteTo"} {
			f := p.Func("(*" + typ + ")." + m)
			if f == nil {
				continue
			}
			for _, b := range f.Blocks {
				for _, in := range b.Instrs {
					if u, ok := in.(*ssa.UnOp); ok {
						if pth, ok := pathFromParam(u.X, f.Params[0]); ok && pth != "" {
							read[strings.SplitN(pth, ".", 2)[0]] = true
						}
					}
				}
			}
		}
		reset := fieldsWritten(p, cls, 0, 3)
		for fld := range written {
			if !read[fld] {
				continue
			}
			n++
			r.Check("R-pool", fmt.Sprintf("%s.Close re-arms field %s (set by UpdateByteRange, consulted by Read/WriteTo) on every path", typ, fld), coveredBy(reset, fld), p.Pos(cls.Pos()),
				"the reader goes back to its pool still positioned/limited for the previous range request: the next full request served from it yields too few bytes for its Content-Length")
		}
	}
	r.Floor("R-pool", "range-state fields of pooled readers", n, 3)
	rangeBoundedReads(p, r)
	encodingFollowsFile(p, r)
	compressedCopyIsFresh(p, r)
	stampAfterLastWrite(p, r)
	staleCopyTestIsSymmetric(p, r)
	overlongRangeNumbersClamp(p, r)
}

// dependsOnModTime: the value is computed from a ModTime() result.
func dependsOnModTime(v ssa.Value, depth int, seen map[ssa.Value]bool) bool {
	if v == nil || depth < 0 || seen[v] {
		return false
	}
	seen[v] = true
	if c, ok := v.(*ssa.Call); ok {
		if c.Call.IsInvoke() && c.Call.Method.Name() == "ModTime" {
			return true
		}
		if f := c.Call.StaticCallee(); f != nil && f.Name() == "ModTime" {
			return true
		}
	}
	in, ok := v.(ssa.Instruction)
	if !ok {
		return false
	}
	for _, op := range in.Operands(nil) {
		if *op != nil && dependsOnModTime(*op, depth-1, seen) {
			return true
		}
	}
	return false
}

// compressedCopyIsFresh (R-fresh): an on-disk compressed copy that already
// existed is served only after its modification time was compared with the
// original's, unless this very path has just written it. (Both places that
// pick up an existing copy need it: openFSFile, which looks beside the
// original, and compressFileNolock, which looks in CompressRoot.)
func compressedCopyIsFresh(p *Prog, r *Report) {
	newFSFile := p.Func("(*fsHandler).newFSFile")
	newComp := p.Func("(*fsHandler).newCompressedFSFile")
	if newFSFile == nil || newComp == nil {
		r.Undecided("R-fresh", "fsHandler.newFSFile / newCompressedFSFile", "anchor not found")
		return
	}
	const (
		bCompared uint64 = 1 << iota
		bWritten
	)
	n := 0
	for _, fn := range p.funcsIn("") {
		if recvTypeName(fn) != "fsHandler" || fn == newComp || fn == newFSFile {
			continue
		}
		type site struct {
			n, bad int
			wit    []string
		}
		sites := map[*ssa.Call]*site{}
		var order []*ssa.Call
		for _, b := range fn.Blocks {
			for _, in := range b.Instrs {
				c, ok := in.(*ssa.Call)
				if !ok {
					continue
				}
				switch c.Call.StaticCallee() {
				case newComp:
				case newFSFile:
					// receiver, f, fileInfo, compressed, ...
					if len(c.Call.Args) < 4 {
						continue
					}
					if k, isC := c.Call.Args[3].(*ssa.Const); isC && k.Value != nil && k.Value.ExactString() == "false" {
						continue
					}
				default:
					continue
				}
				sites[c] = &site{}
				order = append(order, c)
			}
		}
		if len(order) == 0 {
			continue
		}
		x := NewExplorer(p, fn, Hooks{
			Instr: func(x *Explorer, st *State, in ssa.Instruction) {
				c, ok := in.(*ssa.Call)
				if !ok {
					return
				}
				if f := c.Call.StaticCallee(); f != nil && f.Pkg != nil && f.Pkg.Pkg.Path() == "os" && (f.Name() == "Rename" || f.Name() == "CreateTemp" || f.Name() == "Create") {
					st.Set(bWritten)
				}
				s := sites[c]
				if s == nil {
					return
				}
				if c.Call.StaticCallee() == newFSFile && x.Eval(st, c.Call.Args[3]) == False {
					return // the plain file
				}
				s.n++
				if !st.Has(bCompared) && !st.Has(bWritten) {
					s.bad++
					if s.wit == nil {
						s.wit = x.Path(st)
					}
				}
			},
			Branch: func(x *Explorer, st *State, cond ssa.Value, taken bool, from *ssa.BasicBlock) {
				if dependsOnModTime(cond, 6, map[ssa.Value]bool{}) {
					st.Set(bCompared)
				}
			},
		})
		x.Filter = noIntFilter
		for _, prm := range fn.Params {
			if isBool(prm.Type()) {
				x.Track(prm)
			}
		}
		x.Run(nil)
		for _, c := range order {
			s := sites[c]
			n++
			construct := fmt.Sprintf("%s: the compressed file opened at %s was written on this path or had its modification time compared with the original's", funcName(fn), funcName(c.Call.StaticCallee()))
			if x.Aborted || s.n == 0 {
				r.Undecided("R-fresh", construct, "exploration gave no verdict")
				continue
			}
			r.Check("R-fresh", construct, s.bad == 0, p.Pos(c.Pos()),
				fmt.Sprintf("%d of %d explored arrivals open an existing compressed copy unconditionally: a copy made for an older version of the file is served (and its Last-Modified announced) after the file changed", s.bad, s.n), s.wit...)
		}
	}
	r.Floor("R-fresh", "places that open an on-disk compressed copy", n, 3)
}

// encodingFollowsFile (R-enc): compressAndOpenFSFile may hand back the plain
// file although compression was negotiated (incompressible content, big file,
// already-compressed suffix, read-only cache directory). What the response
// declares must therefore follow the file that was opened, not the request:
// every call in the FS handler that sets Content-Encoding is control-dependent
// on the opened file's own 'compressed' flag being true.
func encodingFollowsFile(p *Prog, r *Report) {
	h := p.Func("(*fsHandler).handleRequest")
	if h == nil {
		r.Undecided("R-enc", "fsHandler.handleRequest", "anchor not found")
		return
	}
	n := 0
	for _, b := range h.Blocks {
		for _, in := range b.Instrs {
			c, ok := in.(*ssa.Call)
			if !ok {
				continue
			}
			f := c.Call.StaticCallee()
			if f == nil || recvTypeName(f) != "ResponseHeader" || (f.Name() != "SetContentEncodingBytes" && f.Name() != "SetContentEncoding") {
				continue
			}
			n++
			ok = false
			var seen []string
			for _, g := range guardsOf(b) {
				seen = append(seen, fmt.Sprintf("%s=%v", g.Atom, g.Pol))
				if g.Atom == "field:fsFile.compressed" && g.Pol {
					ok = true
				}
			}
			r.Check("R-enc", fmt.Sprintf("fsHandler.handleRequest: %s(%s) is reached only when the opened file's compressed flag is set", f.Name(), argLabel(c)), ok, p.Pos(c.Pos()),
				"the declared Content-Encoding does not depend on whether the file that was opened is the compressed variant: when fasthttp declines to compress a file (incompressible, too big, already carrying the compressed suffix) the raw bytes go out labelled as encoded and do not decode to the file's content", strings.Join(seen, " "))
		}
	}
	r.Floor("R-enc", "Content-Encoding assignments in the FS handler", n, 3)
}

// rangeBoundedReads (R-bound): see the explanation text. The obligation
// len(buf) <= endPos - off has three variables, which a zone cannot express;
// it is decided through the value T = endPos - off that the code itself
// computes: some subtraction whose minuend is the window end and whose
// subtrahend is the very offset given to ReadAt must bound len(buf) at the call.
func rangeBoundedReads(p *Prog, r *Report) {
	n := 0
	for _, fn := range p.funcsIn("") {
		if len(fn.Params) == 0 {
			continue
		}
		// receiver types that carry a window end
		hasEnd := false
		if st := structOf(fn.Params[0].Type()); st != nil {
			for i := 0; i < st.NumFields(); i++ {
				if st.Field(i).Name() == "endPos" {
					hasEnd = true
				}
			}
		}
		if !hasEnd {
			continue
		}
		for _, b := range fn.Blocks {
			for _, in := range b.Instrs {
				c, ok := in.(*ssa.Call)
				if !ok || !c.Call.IsInvoke() || c.Call.Method.Name() != "ReadAt" || len(c.Call.Args) != 2 {
					continue
				}
				n++
				buf, off := c.Call.Args[0], c.Call.Args[1]
				for {
					if cv, ok := off.(*ssa.Convert); ok {
						off = cv.X
						continue
					}
					break
				}
				var start *ssa.BasicBlock
				if h := loopHeaderOf(b); h != nil {
					start = h
				}
				res := zoneWalkFrom(p, fn, start, nil, nil, nil, nil, func(i ssa.Instruction, z *zone) (bool, bool, string) {
					if i != ssa.Instruction(c) {
						return false, true, ""
					}
					l := z.node(z.lenOf(buf))
					offN, offO := z.term(off)
					for _, bb := range fn.Blocks {
						for _, i2 := range bb.Instrs {
							sub, ok := i2.(*ssa.BinOp)
							if !ok || sub.Op != token.SUB {
								continue
							}
							if _, fv := loadedField(sub.X); fv == nil || fv.Name() != "endPos" {
								continue
							}
							yn, yo := z.term(sub.Y)
							if yn != offN || yo != offO {
								continue
							}
							if t, has := z.idx[sub]; has && z.entails(l, 0, t, 0, 0) {
								return true, true, ""
							}
						}
					}
					return true, false, "the buffer handed to ReadAt is not shown to be at most endPos - offset long on this path"
				})
				name := fmt.Sprintf("%s: the buffer given to ReadAt is never longer than what is left of the window [startPos, endPos)", funcName(fn))
				if res.undecided != "" {
					r.Undecided("R-bound", name, res.undecided)
					continue
				}
				r.Check("R-bound", name, res.bad == 0 && res.successReturns > 0, p.Pos(c.Pos()),
					fmt.Sprintf("%s (%d of %d paths to the call): the read runs past the end of the requested range, so a 206 response carries more bytes than its Content-Range announces", res.detail, res.bad, res.successReturns), res.witness...)
			}
		}
	}
	r.Floor("R-bound", "ReadAt calls in window readers", n, 2)
}

func structOf(t types.Type) *types.Struct {
	if pt, ok := t.Underlying().(*types.Pointer); ok {
		t = pt.Elem()
	}
	st, _ := t.Underlying().(*types.Struct)
	return st
}

func argLabel(c *ssa.Call) string {
	if len(c.Call.Args) < 2 {
		return ""
	}
	if g := globalOf(c.Call.Args[1]); g != "" {
		return g
	}
	return c.Call.Args[1].Name()
}

// stampAfterLastWrite (R-stamp): the on-disk compressed copy carries the original's modification time - that is
// what Last-Modified, If-Modified-Since and both staleness comparisons (R-fresh) read. The time is stamped on the
// temporary file with os.Chtimes; any later write resets it to "now". In every function that stamps a file it
// created (os.CreateTemp / os.Create) the Chtimes call is reached only after that file was closed.
func stampAfterLastWrite(p *Prog, r *Report) {
	n := 0
	for _, fn := range p.funcsIn("") {
		var stamps []ssa.Instruction
		var created []ssa.Value
		for _, b := range fn.Blocks {
			for _, in := range b.Instrs {
				c, ok := in.(*ssa.Call)
				if !ok || c.Call.StaticCallee() == nil || c.Call.StaticCallee().Pkg == nil || c.Call.StaticCallee().Pkg.Pkg.Path() != "os" {
					continue
				}
				switch c.Call.StaticCallee().Name() {
				case "Chtimes":
					stamps = append(stamps, in)
				case "CreateTemp", "Create", "OpenFile":
					created = append(created, c)
				}
			}
		}
		if len(stamps) == 0 || len(created) == 0 {
			continue
		}
		closes := func(i ssa.Instruction) bool {
			c, ok := i.(ssa.CallInstruction)
			if !ok || c.Common().StaticCallee() == nil || c.Common().StaticCallee().Name() != "Close" || len(c.Common().Args) == 0 {
				return false
			}
			for _, cr := range created {
				if derivesFromValue(c.Common().Args[0], cr) {
					return true
				}
			}
			return false
		}
		for _, st := range stamps {
			n++
			hit, path := reachAvoiding(fn, nil, func(i ssa.Instruction) bool { return i == st }, closes, nil)
			r.Check("R-stamp", funcName(fn)+": the modification time is stamped on the created file only after the file was closed", hit == nil, p.Pos(st.Pos()),
				"os.Chtimes is reachable before the created file is closed: the data written afterwards resets the modification time to now, so the compressed copy announces the compression time as Last-Modified (If-Modified-Since with the file's real time gets 200) and looks newer than a later version of the file that carries an older time", blocksString(p, path)...)
		}
	}
	r.Floor("R-stamp", "files stamped with the original's modification time", n, 1)
}

// staleCopyTestIsSymmetric (C24.R-sym): a compressed copy is stamped with the mod time of the file it was made from;
// whether an existing copy may be served is decided by comparing the two mod times. (1) That comparison lives in one
// routine (every Time.Sub of two ModTime() values in the package is inside it, and the reuse sites call it);
// (2) on every path on which that routine reports 'not stale', the difference d of the two times is entailed, in
// the difference-bound domain, to lie strictly within one second on BOTH sides: -1s < d < 1s. A one-sided test
// ('the file is at least a second newer') keeps serving the copy of a previous version after a rollback that keeps
// mod times.
func staleCopyTestIsSymmetric(p *Prog, r *Report) {
	isModTime := func(v ssa.Value) bool {
		for d := 0; d < 4; d++ {
			switch x := v.(type) {
			case *ssa.Call:
				return x.Call.IsInvoke() && x.Call.Method.Name() == "ModTime" || (x.Call.StaticCallee() != nil && x.Call.StaticCallee().Name() == "ModTime")
			case *ssa.Parameter:
				return x.Type().String() == "time.Time"
			case *ssa.UnOp:
				v = x.X
				continue
			}
			return false
		}
		return false
	}
	var helper *ssa.Function
	var diff *ssa.Call
	nsub := 0
	for _, fn := range p.funcsIn("") {
		if !strings.HasSuffix(p.Fset.Position(fn.Pos()).Filename, "fs.go") {
			continue
		}
		allCalls(fn, func(b *ssa.BasicBlock, c ssa.CallInstruction) {
			f := c.Common().StaticCallee()
			if f == nil || f.Name() != "Sub" || recvTypeName(f) != "Time" || len(c.Common().Args) != 2 {
				return
			}
			if !isModTime(c.Common().Args[0]) || !isModTime(c.Common().Args[1]) {
				return
			}
			nsub++
			if cv, ok := c.(*ssa.Call); ok && fn.Signature.Results().Len() == 1 && isBool(fn.Signature.Results().At(0).Type()) && len(fn.Params) == 2 {
				helper, diff = fn, cv
			}
		})
	}
	r.Floor("R-sym", "differences of two mod times in fs.go", nsub, 1)
	r.Check("R-sym", "the mod times of a file and of its compressed copy are compared in one routine", nsub == 1 && helper != nil, "fs.go",
		fmt.Sprintf("%d Time.Sub calls over two mod times, comparison routine found: %v - a reuse site with its own comparison escapes the symmetric test", nsub, helper != nil))
	if helper == nil {
		return
	}
	ncall := 0
	for _, fn := range p.funcsIn("") {
		allCalls(fn, func(b *ssa.BasicBlock, c ssa.CallInstruction) {
			if c.Common().StaticCallee() == helper {
				ncall++
			}
		})
	}
	r.Floor("R-sym", "call sites of the staleness test", ncall, 2)
	const second = int64(1000000000)
	nfalse, bad := 0, 0
	detail := ""
	check := func(guards []guardAtom, extra *ssa.BinOp) {
		nfalse++
		z := newZone()
		nd := z.node(diff)
		// comparisons of -d with a constant are comparisons of d with the negated constant, the other way round
		assume := func(bo *ssa.BinOp, outcome bool) {
			if neg, ok := bo.X.(*ssa.UnOp); ok && neg.Op == token.SUB && neg.X == ssa.Value(diff) {
				if k, isK := constInt(bo.Y); isK {
					op := bo.Op
					if !outcome {
						switch op {
						case token.LSS:
							op = token.GEQ
						case token.LEQ:
							op = token.GTR
						case token.GTR:
							op = token.LEQ
						case token.GEQ:
							op = token.LSS
						}
					}
					switch op {
					case token.LSS: // -d < k  <=>  0 - d <= k-1
						z.add(0, 0, nd, 0, k-1)
					case token.LEQ:
						z.add(0, 0, nd, 0, k)
					case token.GTR: // -d > k  <=>  d - 0 <= -k-1
						z.add(nd, 0, 0, 0, -k-1)
					case token.GEQ:
						z.add(nd, 0, 0, 0, -k)
					}
					return
				}
			}
			z.assumeCmp(bo.Op, bo.X, bo.Y, outcome)
		}
		for _, g := range guards {
			if bo, ok := g.Cond.(*ssa.BinOp); ok {
				assume(bo, g.Pol)
			}
		}
		if extra != nil {
			assume(extra, false)
		}
		if z.infeasible() {
			return
		}
		up := z.entails(nd, 0, 0, 0, second-1)
		lo := z.entails(0, 0, nd, 0, second-1)
		if !up || !lo {
			bad++
			detail = fmt.Sprintf("on a 'not stale' path: d < 1s entailed: %v, d > -1s entailed: %v", up, lo)
		}
	}
	for _, b := range helper.Blocks {
		rt, ok := b.Instrs[len(b.Instrs)-1].(*ssa.Return)
		if !ok {
			continue
		}
		rr := returnResults(rt)
		if len(rr) != 1 {
			continue
		}
		switch v := rr[0].(type) {
		case *ssa.Phi:
			for i, e := range v.Edges {
				pr := v.Block().Preds[i]
				gs := guardsOf(pr)
				// the edge itself: pr may end in the If whose outcome selects this edge
				if iff, ok := pr.Instrs[len(pr.Instrs)-1].(*ssa.If); ok {
					if bo, ok := iff.Cond.(*ssa.BinOp); ok {
						gs = append(gs, guardAtom{Cond: bo, Pol: pr.Succs[0] == v.Block()})
					}
				}
				switch ev := e.(type) {
				case *ssa.Const:
					if ev.Value != nil && ev.Value.ExactString() == "false" {
						check(gs, nil)
					}
				case *ssa.BinOp:
					check(gs, ev)
				default:
					nfalse++
					bad++
					detail = "the result is not a comparison of the difference"
				}
			}
		case *ssa.BinOp:
			check(guardsOf(b), v)
		case *ssa.Const:
			if v.Value != nil && v.Value.ExactString() == "false" {
				check(guardsOf(b), nil)
			}
		default:
			nfalse++
			bad++
			detail = "the result is not a comparison of the difference"
		}
	}
	r.Check("R-sym", funcName(helper)+": 'not stale' entails that the two mod times differ by less than a second in either direction", bad == 0 && nfalse > 0, p.Pos(helper.Pos()),
		detail+" - a file replaced by an OLDER version that keeps its mod time is served from the compressed copy of the version before")
}

// overlongRangeNumbersClamp (C24.R-clamp): a last position or suffix length that is syntactically a number but does
// not fit an int lies beyond the end of any content and is clamped like every other one. In ParseByteRange the failure
// of at most one ParseUint call (the first position, which is not clamped) leads to an error return without passing
// the digits-only test of the token.
func overlongRangeNumbersClamp(p *Prog, r *Report) {
	fn := p.Func("ParseByteRange")
	pu := p.Func("ParseUint")
	if fn == nil || pu == nil {
		r.Undecided("R-clamp", "ParseByteRange / ParseUint", "not found")
		return
	}
	scansDigits := func(f *ssa.Function) bool {
		if f == nil || !inModule(f) || f.Blocks == nil || !isBool1(f) {
			return false
		}
		nine, zero := false, false
		for _, b := range f.Blocks {
			for _, in := range b.Instrs {
				if bo, ok := in.(*ssa.BinOp); ok {
					if k, isK := constInt(bo.Y); isK && k == '9' {
						nine = true
					} else if isK && k == '0' {
						zero = true
					}
				}
			}
		}
		return nine && zero
	}
	n, unfiltered := 0, 0
	allCalls(fn, func(b *ssa.BasicBlock, c ssa.CallInstruction) {
		if c.Common().StaticCallee() != pu {
			return
		}
		n++
		// the branch taken when this call failed
		var failed *ssa.BasicBlock
		if cv, ok := c.(*ssa.Call); ok {
			for _, ref := range *cv.Referrers() {
				ex, ok := ref.(*ssa.Extract)
				if !ok || ex.Index != 1 {
					continue
				}
				for _, r2 := range *ex.Referrers() {
					bo, ok := r2.(*ssa.BinOp)
					if !ok || !(bo.Op == token.NEQ || bo.Op == token.EQL) {
						continue
					}
					for _, r3 := range *bo.Referrers() {
						if iff, ok := r3.(*ssa.If); ok {
							failed = iff.Block().Succs[0]
							if bo.Op == token.EQL {
								failed = iff.Block().Succs[1]
							}
						}
					}
				}
			}
		}
		if failed == nil {
			unfiltered++
			return
		}
		if scansDigits(firstCallee(failed)) {
			return
		}
		if rt, ok := failed.Instrs[0].(*ssa.Return); ok {
			if rr := returnResults(rt); len(rr) == 3 && !isNilConst(rr[2]) {
				unfiltered++
				return
			}
		}
		// the error return taken when this call failed: reachable from that branch without the digits-only test
		hit, _ := reachAvoiding(fn, failed.Instrs[0], func(i ssa.Instruction) bool {
			rt, ok := i.(*ssa.Return)
			if !ok {
				return false
			}
			rr := returnResults(rt)
			return len(rr) == 3 && !isNilConst(rr[2])
		}, func(i ssa.Instruction) bool {
			cc, ok := i.(ssa.CallInstruction)
			if !ok {
				return false
			}
			if cc.Common().StaticCallee() == pu {
				return true
			}
			return scansDigits(cc.Common().StaticCallee())
		}, nil)
		if hit != nil {
			unfiltered++
		}
	})
	r.Floor("R-clamp", "number parses in ParseByteRange", n, 3)
	r.Check("R-clamp", "ParseByteRange: only the first position's parse failure is returned without the digits-only test of the token", unfiltered <= 1, p.Pos(fn.Pos()),
		fmt.Sprintf("%d of %d ParseUint failures lead to an error return without a digits-only test: a last position or suffix length beyond MaxInt ('bytes=0-18446744073709551615') is refused with 416 although it only says 'up to the end'", unfiltered, n))
}

// firstCallee: the static callee of the first call instruction of b (nil when there is none).
func firstCallee(b *ssa.BasicBlock) *ssa.Function {
	for _, in := range b.Instrs {
		if c, ok := in.(ssa.CallInstruction); ok {
			return c.Common().StaticCallee()
		}
	}
	return nil
}

